#!/usr/bin/env python3
"""Generates /verif/MANIFEST.json from one table, so that the manifest, the driver and the
not_applicable list cannot drift apart. Run after changing what is claimed."""
import json
import subprocess

HOOK_COMMITS = subprocess.check_output(
    ["git", "-C", "/repo", "log", "--format=%h %s", "--grep=^verif hooks"], text=True
).strip().splitlines()

SIM_NOTE = ("Trusted base: the harness (SimDisk, reference model, plan generator, crash-image builder) and the "
            "documented media assumptions (bytes outside a written range never change; a byte is old or new; "
            "sync_data makes everything before it durable). SimDisk replaces the file system: FileBackend, OS "
            "locking and kernel behaviour are outside the claim. Sampling, not enumeration.")

CLAIMED = {
    "C01": dict(
        engine="sim-crash", level="exploration", ref="DESIGN.md §4.7, §6 C01",
        technique="deterministic simulation: seeded histories on a simulated disk, crash-image exploration (record once, crash many) with recovery checked against a per-commit reference model",
        text="Seeded search: thousands of generated histories (mixed durability, 1PC/2PC/quick-repair, savepoints, compaction, growth/shrink, swarm over page/region/cache size) run against real redb on SimDisk; for each, dozens of crash images are built from the recorded op log (any subset of un-synced writes, byte-granular tears, set_len kept or lost, nested crashes inside recovery) and recovered with the real code; the recovered contents and savepoints must equal exactly one admissible model version. Evidence of absence over the sampled space, not proof."),
    "C02": dict(
        engine="sim-conf", level="exploration", ref="DESIGN.md §6 C02",
        technique="deterministic simulation: seeded API-level interleaving of reader/writer/savepoint actors against a versioned reference model",
        text="Seeded search over histories with up to 6 concurrently live readers (tables, held iterators in both directions, borrowed and owned guards, handles dropped before their guards) re-consulted after every later commit/abort/restore/compaction attempt at cache sizes from 0; each re-read must equal the model snapshot of the version current at begin_read(). Engine B adds lock-level interleavings: reader tasks under the stall scheduler re-read their snapshot (tables, counters, a held iterator) while writer tasks commit, free and reuse pages at cache sizes from 0."),
    "C03": dict(
        engine="sched", level="exploration", ref="DESIGN.md §5, §6 C03",
        technique="deterministic simulation of thread schedules: real redb with its lock primitives replaced by shuttle's, client tasks under seeded stall / random / PCT schedulers, history checked for serial commit order and real-time bounds",
        text="Seeded search over lock-level interleavings: 1-2 writer tasks (each transaction reads one counter and writes counter+1 into three tables, churns a fourth, commits with a drawn durability / 2PC / quick-repair or aborts, creates and drops savepoints) and 0-2 reader tasks, plus a scenario that drops the Database while a write transaction is live. The stall scheduler freezes a victim at a chosen scheduling point inside a chosen API call while the others run whole API calls. History oracle over globally sequenced events: never two live writers; committed versions are exactly 1..N; a commit that returned before another was called has the smaller version; every reader sees one version in all tables, not older than any commit that had returned before begin_read was called and not newer than any commit requested before it returned, never moving backwards per task; contents equal the model of that version; every execution terminates (shuttle reports a deadlock deterministically).",
        note="Trusted base: shuttle 0.9.3 (sequentially consistent, one task runs at a time), the harness oracles. Preemption happens at lock/condvar operations and at the named pause points; atomics are not scheduling points; weak-memory behaviour is out of reach. src/sync.rs itself is replaced, so changes confined to it are not seen. Sampling, not enumeration."),
    "C04": dict(
        engine="sim-conf", level="exploration", ref="DESIGN.md §6 C04 (conformance tier)",
        technique="deterministic simulation, fault-free conformance tier: seeded operation programs checked operation by operation against a sorted-map model, with commit/reopen/dirty-restart steps",
        text="Seeded generation of table programs (insert, insert_reserve, get, get_mut, entry, remove, pop, range both directions, first/last/len, retain_in, extract_from_if incl. partial consumption) over fixed and variable width keys and value lengths from 0 to several pages, at page sizes 512..16384, region sizes and cache sizes incl. 0; every result and the contents after commit, reopen and crash recovery equal the model."),
    "C05": dict(
        engine="sim-conf", level="exploration", ref="DESIGN.md §6 C05",
        technique="deterministic simulation: seeded histories with aborted, dropped and poisoned transactions checked against the reference model and the allocated-page count",
        text="Seeded search over transaction bodies ended by abort(), drop or commit() of a transaction poisoned by a panicking predicate; the next transaction must observe the model state from before, savepoint validity included, and stats().allocated_pages() must equal its value before the abandoned transaction."),
    "C06": dict(
        engine="sim-conf", level="exploration", ref="DESIGN.md §4.5, §6 C06",
        technique="deterministic simulation: exact page-ownership equation after every transaction-ending step (independent decoder over the live trees vs the allocator snapshot) plus a write monitor on every backend write",
        text="After every step that ends a transaction, reopens, compacts or drops a savepoint, the allocator's allocated set (verif_snapshot hook) must equal, exactly and without double owners, the pages of the live data tree, the live system tree, the pages listed in the on-disk freed tables and the in-memory freed records, decoded by an independent reader; pages named by allocation records must be allocated. At every successful sync_data the pages reachable from the commit recovery would select are write-protected until the next sync, and any backend write overlapping them is a violation. Seeded churn histories with readers, savepoints, non-durable commits, compaction and reopen."),
    "C07": dict(
        engine="sim-crash", level="exploration", ref="DESIGN.md §6 C07",
        technique="deterministic simulation: seeded savepoint histories with crash-image exploration against the reference model",
        text="Seeded search over interleavings of ephemeral/persistent savepoint creation, restore, delete, drop with data transactions of all durabilities, clean reopen, dirty restart; restore results, later-savepoint invalidation, error variants and the persistent savepoint list are compared with the model; crash images (sampled, plus per run up to two enumeration bursts of every all-pending-writes-but-one image at a sync) must list exactly the model's persistent savepoints and each must restore to its captured contents."),
    "C08": dict(
        engine="sim-fault", level="fault_enumeration", ref="DESIGN.md §6 C08",
        technique="deterministic simulation with fault injection: for each seeded history, the k-th backend call fails (once or permanently, optionally after a partially applied write) for every k, then the surviving storage is reopened from a crash state",
        text="For each sampled history (after creation) every index k of its backend-call stream is enumerated (sampled above a cap): call k fails once or for good, a failing write may be partially applied; the API sequence continues; no panic may escape, every Ok result must equal the model, begin_write must be refused once an error has been reported, and after dropping the database the surviving storage (in a chosen crash state) must reopen to one admissible commit point with the failed commit applied entirely or not at all."),
    "C09": dict(
        engine="sim-conf", level="exploration", ref="DESIGN.md §6 C09 (conformance tier)",
        technique="deterministic simulation, fault-free conformance tier: seeded multimap programs against a map-of-sorted-sets model",
        text="Seeded generation of multimap programs with few keys and many values (value sizes empty to > half a page, driving inline <-> subtree transitions) at every page size; insert/remove/remove_all/get/range/len results and contents after commit and reopen equal the model."),
    "C10": dict(
        engine="sim-conf", level="exploration", ref="DESIGN.md §4.6, §6 C10",
        technique="deterministic simulation: at every successful sync_data of every simulated run the durable bytes are decoded by an independent from-the-format reader (own XXH3 via xxhash-rust, own comparators)",
        text="At every successful sync_data (after creation) the durable bytes alone are decoded following the documented v3 format: recovery's slot choice is emulated, and the selected forest must have strictly increasing keys, routing keys bounding their subtrees, leaves at one depth, stored counts equal to entries present, no page referenced twice, every page inside its region, every checksum from slot to leaf matching; its logical contents and savepoint list must equal one admissible model version. Independent of redb's accessors and checksum code."),
    "C11": dict(
        engine="sim-crash", level="exploration", ref="DESIGN.md §6 C11",
        technique="deterministic simulation: every open path (clean, quick-repair, full repair, crash during repair) followed by check_integrity and further transactions, against the reference model",
        text="Seeded search over histories stopped by clean close or crash image (all commit strategies) and reopened, repeatedly; after each open check_integrity() must be Ok(true) with contents equal to the model and persistent savepoints intact, and a post-reopen workload followed by another reopen must keep model equality. Allocation state is judged through check_integrity and behaviour in this check."),
    "C12": dict(
        engine="sim-corrupt", level="fault_enumeration", ref="DESIGN.md §6 C12",
        technique="deterministic simulation with stored-byte corruption faults: closed images of seeded histories are altered (all 2560 header bits in slices; pages by role from the independent decoder) and opened + check_integrity()'d by the real code",
        text="For closed images produced by seeded histories: every bit of the 320-byte super-header (enumerated in 16 slices across runs) and sampled alterations stratified by page role (data tree, system tree, pending-free pages; single bit, single byte, run of bytes within a page, two pages swapped; biased to the used head of a page; and structure-aware flips in the key/value offset tables of branch and leaf pages, biased to their last entries) are applied; then open and check_integrity(): an error, or Ok(false) followed by contents equal to one commit point of the history and a second Ok(true), or Ok(true) with contents (scans and a point lookup of every entry, and the persistent savepoint list) equal to exactly one commit point. Run on a build without debug assertions, as users run it. A panic on damaged bytes is counted as 'reported' and shown in the evidence, not raised.",
        note="Trusted base: harness, reference model, independent decoder (used only to place alterations). A panic while opening or checking a damaged file is counted, not judged. Sampling outside the header."),
    "C13": dict(
        engine="sim-crash", level="exploration", ref="DESIGN.md §6 C13",
        technique="deterministic simulation: compaction at arbitrary points of seeded histories, with crash images inside the compaction",
        text="Seeded search: compact() at arbitrary points (fragmented, multi-region, pending frees, non-durable commits, live readers/savepoints); contents unchanged, length not larger, sync count bounded, refusal with the documented error and no effect while readers or savepoints exist; crash images taken inside the compaction recover to the unchanged contents."),
    "C16": dict(
        engine="sched", level="exploration", ref="DESIGN.md §5, §6 C16",
        technique="deterministic simulation of thread schedules: one WriteTransaction shared by several shuttle tasks under seeded stall / random / PCT schedulers, audited sequentially afterwards",
        text="Seeded search over interleavings of 2-4 tasks that each open and modify their own table and multimap of one shared write transaction (inserts of values up to three pages, removals of committed entries), with a task calling ephemeral_savepoint() concurrently and a task dropping an older Savepoint while the commit runs; then commit or abort. Afterwards: every table equals its own stream applied alone, the exact page-ownership equation holds (no page shared, none leaked), a concurrently obtained savepoint either failed with InvalidSavepoint or restores the pre-transaction contents without leaking, and check_integrity() is Ok(true).",
        note="Trusted base: shuttle 0.9.3 (sequentially consistent), harness oracles, independent decoder. Preemption at lock operations and named pause points only. Sampling, not enumeration."),
    "C17": dict(
        engine="sim-conf", level="exploration", ref="DESIGN.md §6 C17 (conformance tier)",
        technique="deterministic simulation, fault-free conformance tier: seeded catalog programs against a name -> (kind, types, contents) model",
        text="Seeded generation of open/create/rename/delete/list programs on tables and multimaps with colliding names and deliberately wrong kinds and types, interleaved with data operations, handle drops, abort and reopen; type probes create a table with a user-defined key or value type and reopen it with a same-named type of another width, another name, or a tuple containing a look-alike of a built-in element; every result including the error variant (TableTypeMismatch, TypeDefinitionChanged, TableIsMultimap, TableAlreadyOpen ...) equals the model."),
    "C18": dict(
        engine="sim-cursor", level="exploration", ref="DESIGN.md §6 C18 (conformance tier, experimental_cursor build)",
        technique="deterministic simulation, fault-free conformance tier on the experimental_cursor feature build: seeded cursor sessions against a sorted-map gap cursor, with commit / abort / reopen / dirty restart between sessions",
        text="Seeded generation of cursor programs on real redb (built with experimental_cursor) on SimDisk: tables with u64 or long-shared-prefix &str keys and values from 0 bytes to several pages, page sizes 512..16384; read cursors and mutable cursors positioned by lower_bound/upper_bound with every bound kind; peek/next/prev, runs of insert_before (ascending) and insert_after (descending) including duplicates and out-of-order keys, remove_next/remove_prev; cursors closed or dropped; commits of both durabilities, aborts, reopen and dirty restart between sessions. Every result (entry, None, accepted, UnorderedKey) and the table after each session equal a gap cursor over a sorted map.",
        note="Trusted base: harness model and generator. No schedule or storage fault is involved in this property; the simulator contributes determinism, replay, minimisation, configuration swarm and the reopen / restart steps. Decided on the feature build, not on the default feature set."),
    "C19": dict(
        engine="sim-compat", level="exploration", ref="DESIGN.md §6 C19",
        technique="deterministic simulation: two real implementations (the working tree and the released redb 3.0.0 from the offline cargo cache) alternate on one simulated disk, handing over clean-closed and crash-recovered files, against the reference model",
        text="Direction 1: seeded histories written by the working tree (4 KiB pages, the geometry both releases produce; variable-width keys with shortened routing keys, multimaps with subtrees, persistent savepoints, non-durable commits, compaction) are handed to redb 3.0.0 after a clean close and after this code recovered one of its own crash images; 3.0.0 must open them, pass its check_integrity(), read contents (scans, a point lookup of every key and bounded seeks; string keys include CJK and emoji sharing lead bytes) and savepoint list equal to the model, and after 3.0.0 has written to the file the working tree must read everything back and pass its own check. Direction 2: a reduced interpreter runs the same plans through the 3.0.0 API; its clean-closed files and the files 3.0.0 recovered from its own crash images must open in the working tree with model-equal contents, restorable savepoints and check_integrity() == Ok(true).",
        note="Trusted base: harness, reference model; redb 3.0.0 is the released crate, unmodified. Page size 4096 and default region size only. An Ok(false) from 3.0.0's check_integrity() is not counted when 3.0.0's own open had grown the file without committing (a defect of 3.0.0 that shows on files it wrote itself, see DESIGN.md corrections). Table deletion is not exercised through the 3.0.0 writer (3.0.0 panics on create+delete in one transaction). Sampling."),
    "C20": dict(
        engine="sim-conf", level="exploration", ref="DESIGN.md §6 C20",
        technique="deterministic simulation: contract monitor inside the simulated storage backend over seeded lifecycle histories",
        text="SimDisk records a contract violation for any read/write beyond the current length, any call after close(), a close() count other than one per backend, and any write/set_len/sync on a read-only database; seeded lifecycle histories (Database dropped with a live write transaction, read-only opens, reopen, compaction shrink, dirty restart) exercise it; Engine B races the Database drop against a live write transaction and a reader under seeded schedules."),
}

NOT_YET = {
}

NA = {
    "C14": "not applicable to deterministic simulation: the property quantifies over direct call sequences on a crate-private, single-threaded, I/O-free allocator - a pure function of its input; there is no schedule, clock, fault or storage for a simulator to own (DESIGN.md §6 C14)",
    "C15": "not applicable to deterministic simulation: Key::compare / Key::separator / Value::as_bytes are pure functions of their arguments; nothing depends on interleaving, time, I/O or faults (DESIGN.md §6 C15)",
}

try:
    from manifest_extra import extend  # optional: later engines register here
    extend(CLAIMED, NOT_YET)
except ImportError:
    pass

checks = []
for pid in sorted(CLAIMED):
    c = CLAIMED[pid]
    checks.append({
        "property_id": pid,
        "quick_cmd": f"./check {pid} --tier quick",
        "thorough_cmd": f"./check {pid} --tier thorough",
        "evidence_file": f"/verif/evidence/{pid}.json",
        "replay_cmd_template": "./check replay {path}",
        "engine": c["engine"],
        "level_claimed": {"category": c["level"], "text": c["text"], "design_ref": c["ref"]},
        "level_note": c.get("note", SIM_NOTE),
        "technique": c["technique"],
    })

na = [{"property_id": k, "reason": v} for k, v in sorted({**NA, **{k: v for k, v in NOT_YET.items() if k not in CLAIMED}}.items())]

manifest = {
    "version": 1,
    "setup_cmd": "./check setup",
    "hooks": {
        "guard": "cfg(redb_verif)",
        "enable": "RUSTFLAGS='--cfg redb_verif' (set in /verif/sim/.cargo/config.toml); redb is a cargo path dependency on /repo, so every check rebuilds from the working tree",
        "baseline_off_cmd": "cd /repo && cargo nextest run --workspace --no-fail-fast --test-threads 8 --offline",
        "source_commits": HOOK_COMMITS,
        "add_only": True,
    },
    "engines": [
        {"name": "sim-conf", "path": "/verif/sim", "serves_properties": [p for p in sorted(CLAIMED) if CLAIMED[p]["engine"] == "sim-conf"],
         "kind_free_text": "single-threaded seeded simulator: real redb on SimDisk (simulated StorageBackend) checked step by step against a reference model"},
        {"name": "sim-fault", "path": "/verif/sim", "serves_properties": [p for p in sorted(CLAIMED) if CLAIMED[p]["engine"] == "sim-fault"],
         "kind_free_text": "the same simulator with fault injection at every backend call index, followed by crash-state reopen"},
        {"name": "sched", "path": "/verif/sched", "serves_properties": ["C02", "C03", "C16", "C20"],
         "kind_free_text": "real redb (copy of /repo/src, sync.rs replaced by shuttle primitives) with client tasks under seeded stall / random / PCT schedulers; replay = same plan + scheduler seed, schedule hash compared"},
        {"name": "sim-corrupt", "path": "/verif/sim", "serves_properties": ["C12"],
         "kind_free_text": "the same simulator (release build without debug assertions) with stored-byte corruption of closed images"},
        {"name": "sim-compat", "path": "/verif/sim", "serves_properties": ["C19"],
         "kind_free_text": "the simulator with redb 3.0.0 (released crate, offline cache) linked as a second implementation on the same SimDisk"},
        {"name": "sim-cursor", "path": "/verif/cursor", "serves_properties": ["C18"],
         "kind_free_text": "stand-alone conformance harness on the experimental_cursor feature build of redb, same SimDisk and PRNG"},
        {"name": "sim-crash", "path": "/verif/sim", "serves_properties": [p for p in sorted(CLAIMED) if CLAIMED[p]["engine"] == "sim-crash"],
         "kind_free_text": "the same simulator plus crash-image exploration over the recorded backend op log (record once, crash many), nested crashes in recovery"},
    ],
    "checks": checks,
    "not_applicable": na,
    "notes": "Exit codes: 0 held, 1 violation (VIOLATION line + replay file), 2 harness error. Default seed fixed (VERIF_SEED overrides). Known findings: /verif/known_findings.json. Every check first replays its regression corpus (/verif/corpus/<id>/*.json: recorded findings and the minimised runs that exposed seeded changes), then runs the seeded search. See DESIGN.md.",
}
json.dump(manifest, open("/verif/MANIFEST.json", "w"), indent=1)
print("claimed:", sorted(CLAIMED), "unclaimed:", [x["property_id"] for x in na])
