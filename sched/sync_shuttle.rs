// Replacement for redb's src/sync.rs in the schedule-exploration build (Engine B): every lock
// primitive redb uses is shuttle's, so a seeded scheduler decides every lock-level interleaving.
pub(crate) use shuttle::sync::{
    Condvar, Mutex, MutexGuard, RwLock, RwLockReadGuard, RwLockWriteGuard,
};
pub(crate) use std::sync::PoisonError;

// Named pause points become scheduling points.
#[cfg(redb_verif)]
#[inline]
pub(crate) fn verif_pause(_site: &'static str) {
    shuttle::thread::yield_now();
}
