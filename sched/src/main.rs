//! Engine B: the real redb (copy of /repo/src with sync.rs replaced by shuttle's primitives) driven
//! by client tasks under a seeded scheduler. One execution = one (scenario plan, scheduler plan),
//! both drawn from hash(seed, execution index); replay = the same pair again.

#[path = "../../sim/src/deep.rs"]
mod deep;
#[path = "../../sim/src/disk.rs"]
mod disk;
#[path = "../../sim/src/fsck.rs"]
mod fsck;
#[path = "../../sim/src/model.rs"]
mod model;
#[path = "../../sim/src/plan.rs"]
mod plan;
#[path = "../../sim/src/rng.rs"]
mod rng;
mod scen;
mod stall;

fn main() {
    let args: Vec<String> = std::env::args().skip(1).collect();
    std::process::exit(scen::cli(&args));
}
