//! The schedulers of Engine B. All are deterministic functions of a seed, so a failing execution
//! is replayed by re-running the same (plan, scheduler seed): no schedule file is needed, and the
//! hash of the chosen task-id sequence proves that two runs took the same interleaving.
//!
//! The stall scheduler freezes one victim task at a chosen scheduling point inside a chosen API
//! call until the other tasks have started `release_after` further API calls (or nothing else is
//! runnable), which is what it takes to hold e.g. a reader between its registration and its root
//! read while a writer commits, frees and reuses pages.

use crate::rng::{Fnv, Rng};
use shuttle::scheduler::{PctScheduler, RandomScheduler, Schedule, Scheduler, Task, TaskId};
use std::cell::RefCell;

/// What the client tasks tell the scheduler (no decision is taken from this side).
#[derive(Default, Clone)]
pub struct Marks {
    /// per task: (index of the API call in progress, kind of that call)
    pub call: Vec<(u32, u8)>,
    pub total_calls: u64,
}

thread_local! {
    pub static MARKS: RefCell<Marks> = RefCell::new(Marks::default());
}

pub const K_OTHER: u8 = 0;
pub const K_BOUNDARY: u8 = 1; // abort, savepoint create/drop, Database drop, reader drop, compact
pub const K_COMMIT: u8 = 2;
pub const K_BEGIN_READ: u8 = 3;
pub const K_BEGIN_WRITE: u8 = 4;

/// Called by a client task right before each redb API call.
pub fn api(kind: u8) {
    let me: usize = shuttle::current::me().into();
    MARKS.with(|m| {
        let mut m = m.borrow_mut();
        if m.call.len() <= me {
            m.call.resize(me + 1, (0, 0));
        }
        m.call[me].0 += 1;
        m.call[me].1 = kind;
        m.total_calls += 1;
    });
}

pub fn reset_marks() {
    MARKS.with(|m| *m.borrow_mut() = Marks::default());
}

#[derive(Clone, Debug, serde::Serialize, serde::Deserialize, PartialEq)]
pub struct Stall {
    pub victim: usize,
    /// freeze at the n-th call of the victim among those matching `kind`
    pub nth: u32,
    /// None = any call, Some(K_BOUNDARY) = any transaction-boundary call, Some(k >= 2) = exactly k
    pub kind: Option<u8>,
    /// scheduling point inside that call
    pub point: u32,
    /// release after the others have started this many further API calls
    pub release_after: u64,
    /// another task that is not scheduled at all until this stall has fired (or nothing else can
    /// run): it then performs its calls while the victim is frozen mid-call
    #[serde(default)]
    pub hold: Option<usize>,
}

#[derive(Clone, Debug, serde::Serialize, serde::Deserialize, PartialEq)]
pub enum SchedPlan {
    Stall { seed: u64, stalls: Vec<Stall> },
    Random { seed: u64 },
    Pct { seed: u64, depth: usize },
}

#[derive(Default, Clone, Debug)]
pub struct SchedStats {
    pub steps: u64,
    pub switches: u64,
    pub stalls_fired: u64,
    pub hash: u64,
}

thread_local! {
    pub static LAST_STATS: RefCell<SchedStats> = RefCell::new(SchedStats::default());
}

struct VictimState {
    calls_seen: u32,
    last_call: u32,
    matched: u32,
    points: u32,
    fired: bool,
}

pub struct Sched {
    inner: Option<Box<dyn Scheduler>>,
    rng: Rng,
    stalls: Vec<Stall>,
    vs: Vec<VictimState>,
    frozen: Option<(usize, u64)>,
    started: bool,
    hash: Fnv,
    stats: SchedStats,
    last: Option<usize>,
}

impl Sched {
    pub fn new(plan: &SchedPlan) -> Self {
        let (inner, seed, stalls): (Option<Box<dyn Scheduler>>, u64, Vec<Stall>) = match plan {
            SchedPlan::Stall { seed, stalls } => (None, *seed, stalls.clone()),
            SchedPlan::Random { seed } => (Some(Box::new(RandomScheduler::new_from_seed(*seed, 1))), *seed, vec![]),
            SchedPlan::Pct { seed, depth } => (Some(Box::new(PctScheduler::new_from_seed(*seed, *depth, 1))), *seed, vec![]),
        };
        let vs = stalls.iter().map(|_| VictimState { calls_seen: 0, last_call: 0, matched: 0, points: 0, fired: false }).collect();
        Sched { inner, rng: Rng::new(seed), stalls, vs, frozen: None, started: false, hash: Fnv::default(), stats: SchedStats::default(), last: None }
    }

    fn record(&mut self, t: usize) {
        self.hash.u64(t as u64);
        self.stats.steps += 1;
        if self.last.is_some() && self.last != Some(t) {
            self.stats.switches += 1;
        }
        self.last = Some(t);
        self.stats.hash = self.hash.0;
        let st = self.stats.clone();
        LAST_STATS.with(|s| *s.borrow_mut() = st);
    }
}

impl Scheduler for Sched {
    fn new_execution(&mut self) -> Option<Schedule> {
        if self.started {
            // let a wrapped scheduler finish its own bookkeeping (it was built for one iteration)
            if let Some(i) = self.inner.as_mut() {
                let _ = i.new_execution();
            }
            return None;
        }
        self.started = true;
        if let Some(i) = self.inner.as_mut() {
            return i.new_execution();
        }
        Some(Schedule::new(0))
    }

    fn next_task(&mut self, runnable: &[&Task], current: Option<TaskId>, is_yielding: bool) -> Option<TaskId> {
        if let Some(i) = self.inner.as_mut() {
            let r = i.next_task(runnable, current, is_yielding);
            if let Some(t) = r {
                self.record(t.into());
            }
            return r;
        }
        let cur: Option<usize> = current.map(|c| c.into());
        let ids: Vec<usize> = runnable.iter().map(|t| t.id().into()).collect();
        let (calls, total) = MARKS.with(|m| {
            let m = m.borrow();
            (m.call.clone(), m.total_calls)
        });
        // does the current task reach a stall point with this scheduling point?
        if let Some(c) = cur {
            for (si, st) in self.stalls.iter().enumerate() {
                let v = &mut self.vs[si];
                if v.fired || st.victim != c || self.frozen.is_some() {
                    continue;
                }
                let (ci, kind) = calls.get(c).copied().unwrap_or((0, 0));
                let matches = match st.kind {
                    None => true,
                    Some(K_BOUNDARY) => kind >= K_BOUNDARY,
                    Some(k) => kind == k,
                };
                if ci != v.last_call {
                    v.last_call = ci;
                    v.points = 0;
                    if matches {
                        v.matched += 1;
                    }
                    v.calls_seen += 1;
                } else {
                    v.points += 1;
                }
                if v.matched > st.nth {
                    // the victim is past the targeted call: this stall can no longer fire, so it
                    // must not keep another task held back
                    v.fired = true;
                    continue;
                }
                let in_target = v.matched == st.nth && matches && ci != 0;
                if in_target && v.points == st.point {
                    v.fired = true;
                    self.frozen = Some((c, total + st.release_after));
                    self.stats.stalls_fired += 1;
                    break;
                }
            }
        }
        // release condition
        if let Some((v, until)) = self.frozen {
            let others: Vec<usize> = ids.iter().copied().filter(|t| *t != v).collect();
            if total >= until || others.is_empty() {
                self.frozen = None;
            } else {
                // run the others; keep the current one mostly (few context switches)
                let pick = match cur {
                    Some(c) if c != v && others.contains(&c) && !is_yielding && self.rng.chance(9, 10) => c,
                    _ => others[self.rng.usize(others.len())],
                };
                self.record(pick);
                return Some(TaskId::from(pick));
            }
        }
        // tasks held back until a stall fires
        let held: Vec<usize> = self.stalls.iter().zip(self.vs.iter()).filter(|(_, v)| !v.fired).filter_map(|(s, _)| s.hold).collect();
        let free: Vec<usize> = ids.iter().copied().filter(|t| !held.contains(t)).collect();
        let ids = if free.is_empty() { ids } else { free };
        let pick = match cur {
            Some(c) if ids.contains(&c) && !is_yielding && self.rng.chance(9, 10) => c,
            _ => ids[self.rng.usize(ids.len())],
        };
        self.record(pick);
        Some(TaskId::from(pick))
    }

    fn next_u64(&mut self) -> u64 {
        self.rng.next()
    }
}

/// What the scenario knows about each client task (task i+1 in shuttle's numbering): how many
/// calls of each kind it will make, so that stall targets fall inside the task's real call list.
#[derive(Clone, Debug, Default)]
pub struct TaskInfo {
    pub calls: u32,
    pub boundary: u32,
    pub commits: u32,
    pub begin_reads: u32,
    pub begin_writes: u32,
}

pub fn draw_sched(rng: &mut Rng, tasks: &[TaskInfo], thorough: bool) -> SchedPlan {
    let ntasks = tasks.len().max(1);
    let seed = rng.next();
    match rng.below(100) {
        0..=9 => SchedPlan::Random { seed },
        10..=19 => SchedPlan::Pct { seed, depth: rng.range(1, 4) as usize },
        _ => {
            let n = if thorough && rng.chance(1, 3) { 2 } else { 1 };
            let mut stalls = vec![];
            for _ in 0..n {
                let vi = rng.usize(ntasks);
                let info = tasks.get(vi).cloned().unwrap_or_default();
                // what to freeze inside: the calls this task really makes, biased to the boundaries
                let mut options: Vec<(Option<u8>, u32)> = vec![(None, info.calls.max(1)), (Some(K_BOUNDARY), info.boundary.max(1))];
                if info.commits > 0 {
                    options.push((Some(K_COMMIT), info.commits));
                    options.push((Some(K_COMMIT), info.commits));
                }
                if info.begin_reads > 0 {
                    options.push((Some(K_BEGIN_READ), info.begin_reads));
                    options.push((Some(K_BEGIN_READ), info.begin_reads));
                }
                if info.begin_writes > 0 {
                    options.push((Some(K_BEGIN_WRITE), info.begin_writes));
                }
                let (kind, count) = options[rng.usize(options.len())];
                // early points hold the victim right after it entered the call; deep points reach
                // windows in the middle or at the end of a long call (a commit has one to a few
                // thousand scheduling points; its final flush alone visits every cache stripe)
                let point = match (kind, rng.below(10)) {
                    (Some(K_COMMIT), 0..=4) => rng.below(2000) as u32,
                    (Some(K_COMMIT), 5..=6) => rng.below(200) as u32,
                    (_, 0..=4) => rng.below(8) as u32,
                    (_, 5..=7) => rng.below(80) as u32,
                    _ => rng.below(1200) as u32,
                };
                let mut st = Stall { victim: 1 + vi, nth: 1 + rng.below(count as u64) as u32, kind, point, release_after: *rng.pick(&[5u64, 30, 70, 1000]), hold: None };
                if ntasks > 1 && rng.chance(1, 2) {
                    let mut h = 1 + rng.usize(ntasks);
                    if h == st.victim {
                        h = 1 + (h % ntasks);
                    }
                    st.hold = Some(h);
                }
                stalls.push(st);
            }
            SchedPlan::Stall { seed, stalls }
        }
    }
}
