//! Scenarios, oracles and the driver of Engine B.

use crate::deep::ownership_audit;
use crate::disk::SimDisk;
use crate::rng::{mix, Rng};
use crate::stall::{api, draw_sched, reset_marks, Sched, SchedPlan, TaskInfo, K_BEGIN_READ, K_BEGIN_WRITE, K_BOUNDARY, K_COMMIT, K_OTHER, LAST_STATS};
use redb::{
    Database, Durability, MultimapTableDefinition, ReadableDatabase, ReadableMultimapTable, ReadableTable,
    ReadableTableMetadata, Savepoint, TableDefinition, WriteTransaction,
};
use serde::{Deserialize, Serialize};
use serde_json::json;
use std::cell::Cell;
use std::collections::{BTreeMap, BTreeSet};
use std::panic::{catch_unwind, AssertUnwindSafe};
use std::sync::atomic::{AtomicBool, AtomicU64, Ordering};
use std::sync::{Arc, Mutex};
use std::time::Instant;

const A: TableDefinition<u64, u64> = TableDefinition::new("a");
const B: TableDefinition<u64, u64> = TableDefinition::new("b");
const C: TableDefinition<u64, u64> = TableDefinition::new("c");
const D: TableDefinition<u64, &[u8]> = TableDefinition::new("d");
const M: MultimapTableDefinition<u64, u64> = MultimapTableDefinition::new("m");

#[derive(Clone, Debug, Serialize, Deserialize, PartialEq)]
pub struct Viol {
    pub prop: String,
    pub tag: String,
    pub detail: String,
}

thread_local! {
    static SEQ: Cell<u64> = const { Cell::new(0) };
    static LIVE_WRITERS: Cell<i64> = const { Cell::new(0) };
    static LAST_PANIC: std::cell::RefCell<String> = const { std::cell::RefCell::new(String::new()) };
    /// the property whose check is running: a panic inside redb on a fault-free execution is
    /// charged to it
    static PROP: std::cell::RefCell<String> = const { std::cell::RefCell::new(String::new()) };
}

fn ev() -> u64 {
    SEQ.with(|s| {
        s.set(s.get() + 1);
        s.get()
    })
}

#[derive(Clone, Debug, Serialize, Deserialize, PartialEq)]
pub struct WTxn {
    pub durable: bool,
    pub two_phase: bool,
    pub quick_repair: bool,
    pub abort: bool,
    pub savepoint: bool,
    pub drop_savepoint: bool,
    pub ins: Vec<(u64, u32)>,
    pub rem: Vec<u64>,
}

#[derive(Clone, Debug, Serialize, Deserialize, PartialEq)]
pub struct RPlan {
    pub reads: u32,
    pub rechecks: u32,
    pub hold_iter: bool,
}

#[derive(Clone, Debug, Serialize, Deserialize, PartialEq)]
pub enum Scenario {
    /// writers bump one counter in three tables + churn a fourth; readers take snapshots (C03, C02)
    Bank { writers: Vec<Vec<WTxn>>, readers: Vec<RPlan> },
    /// one write transaction used from several tasks (C16)
    Shared { tables: Vec<Vec<SOp>>, prefill: u32, sp_concurrent: bool, sp_drop_racing: bool, abort: bool, durable: bool },
    /// the Database is dropped by one task while another holds a live write transaction (C20, C03)
    Lifecycle { ops: Vec<(u64, u32)>, reader: bool, commit: bool },
    /// compact() on one task while another ends a write transaction and holds a savepoint / reader (C13)
    Compact { ops: Vec<(u64, u32)>, prefill: u32, savepoint: bool, reader: bool, commit: bool },
}

#[derive(Clone, Debug, Serialize, Deserialize, PartialEq)]
pub enum SOp {
    Ins(u64, u32),
    Rem(u64),
    MmIns(u64, u64),
    MmRem(u64, u64),
}

#[derive(Clone, Debug, Serialize, Deserialize, PartialEq)]
pub struct Plan {
    pub page_size: u32,
    pub region_pages: Option<u32>,
    pub cache: u64,
    pub scenario: Scenario,
    pub sched: SchedPlan,
}

#[derive(Default)]
pub struct Out {
    pub viols: Vec<Viol>,
    pub commits: u64,
    pub reads: u64,
    pub rechecks: u64,
    pub api_calls: u64,
    pub audits: u64,
}

type Shared = Arc<Mutex<Out>>;

fn viol(out: &Shared, prop: &str, tag: &str, detail: String) {
    let mut o = out.lock().unwrap();
    if o.viols.len() < 10 {
        o.viols.push(Viol { prop: prop.into(), tag: tag.into(), detail });
    }
}

fn val(version: u64, key: u64, len: u32) -> Vec<u8> {
    let mut v = Vec::with_capacity(len as usize);
    let mut x = version.wrapping_mul(0x9E37_79B9_7F4A_7C15) ^ key.wrapping_mul(0xD6E8_FEB8_6659_FD93) | 1;
    for i in 0..len as usize {
        if i % 8 == 0 {
            x ^= x << 13;
            x ^= x >> 7;
            x ^= x << 17;
        }
        v.push((x >> ((i % 8) * 8)) as u8);
    }
    v
}

fn builder(p: &Plan) -> redb::Builder {
    let mut b = Database::builder();
    b.verif_set_page_size(p.page_size as usize);
    if let Some(rp) = p.region_pages {
        b.verif_set_region_size(rp as u64 * p.page_size as u64);
    }
    b.set_cache_size(p.cache as usize);
    b
}

#[derive(Clone)]
struct Commit {
    version: u64,
    call_ev: u64,
    ret_ev: u64,
    ins: Vec<(u64, u32)>,
    rem: Vec<u64>,
}

struct ReadObs {
    task: usize,
    version: u64,
    call_ev: u64,
    ret_ev: u64,
    dump: Vec<(u64, Vec<u8>)>,
}

fn dump_d(t: &impl ReadableTable<u64, &'static [u8]>) -> Result<Vec<(u64, Vec<u8>)>, redb::StorageError> {
    let mut out = vec![];
    for r in t.iter()? {
        let (k, v) = r?;
        out.push((k.value(), v.value().to_vec()));
    }
    Ok(out)
}

fn model_at(commits: &[Commit], version: u64) -> BTreeMap<u64, Vec<u8>> {
    let mut m = BTreeMap::new();
    for c in commits.iter().filter(|c| c.version <= version) {
        for (k, len) in &c.ins {
            m.insert(*k, val(c.version, *k, *len));
        }
        for k in &c.rem {
            m.remove(k);
        }
    }
    m
}

fn bank(p: &Plan, writers: &[Vec<WTxn>], readers: &[RPlan], out: &Shared) {
    let disk = SimDisk::new(vec![]);
    disk.st().record = false;
    let db = match builder(p).create_with_backend(disk.clone()) {
        Ok(d) => Arc::new(d),
        Err(e) => return viol(out, "C03", "create", format!("create failed: {e}")),
    };
    // version 0: empty tables exist
    {
        let t = db.begin_write().unwrap();
        {
            t.open_table(A).unwrap().insert(0, 0).unwrap();
            t.open_table(B).unwrap().insert(0, 0).unwrap();
            t.open_table(C).unwrap().insert(0, 0).unwrap();
            t.open_table(D).unwrap();
        }
        t.commit().unwrap();
    }
    let commits: Arc<Mutex<Vec<Commit>>> = Arc::new(Mutex::new(vec![]));
    let reads: Arc<Mutex<Vec<ReadObs>>> = Arc::new(Mutex::new(vec![]));
    let mut handles = vec![];
    for (wi, txns) in writers.iter().enumerate() {
        let (db, out, commits, txns) = (db.clone(), out.clone(), commits.clone(), txns.clone());
        handles.push(shuttle::thread::spawn(move || writer_task(wi, &db, &txns, &out, &commits)));
    }
    for (ri, rp) in readers.iter().enumerate() {
        let (db, out, reads, rp) = (db.clone(), out.clone(), reads.clone(), rp.clone());
        handles.push(shuttle::thread::spawn(move || reader_task(ri, &db, &rp, &out, &reads)));
    }
    for h in handles {
        if h.join().is_err() {
            viol(out, "C03", "task-panic", format!("a client task panicked: {}", LAST_PANIC.with(|p| p.borrow().clone())));
        }
    }
    // ---- history checks
    let mut commits = commits.lock().unwrap().clone();
    commits.sort_by_key(|c| c.version);
    let n = commits.len() as u64;
    for (i, c) in commits.iter().enumerate() {
        if c.version != i as u64 + 1 {
            viol(out, "C03", "commit-order", format!("committed versions are not 1..={n}: {:?}", commits.iter().map(|c| c.version).collect::<Vec<_>>()));
            break;
        }
    }
    // commits take effect in the order they complete: a commit that returned before another was
    // called must carry the smaller version
    for x in commits.iter() {
        for y in commits.iter() {
            if x.ret_ev < y.call_ev && x.version > y.version {
                viol(out, "C03", "commit-order", format!("commit of version {} returned before commit of version {} was called", x.version, y.version));
            }
        }
    }
    let reads = reads.lock().unwrap();
    let mut last_by_task: BTreeMap<usize, u64> = BTreeMap::new();
    for r in reads.iter() {
        let lower = commits.iter().filter(|c| c.ret_ev < r.call_ev).map(|c| c.version).max().unwrap_or(0);
        let upper = commits.iter().filter(|c| c.call_ev < r.ret_ev).map(|c| c.version).max().unwrap_or(0);
        if r.version < lower {
            viol(out, "C03", "stale-read", format!("a reader begun after commit {lower} had returned saw version {}", r.version));
        }
        if r.version > upper {
            viol(out, "C03", "future-read", format!("a reader saw version {} although only commits up to {upper} had been requested when begin_read returned", r.version));
        }
        let prev = last_by_task.entry(r.task).or_insert(0);
        if r.version < *prev {
            viol(out, "C03", "went-backwards", format!("reader task {} saw version {} after version {}", r.task, r.version, *prev));
        }
        *prev = r.version;
        let exp: Vec<(u64, Vec<u8>)> = model_at(&commits, r.version).into_iter().collect();
        if exp != r.dump {
            viol(out, "C02", "snapshot-contents", format!("reader at version {} saw {} entries, the model has {}", r.version, r.dump.len(), exp.len()));
        }
    }
    drop(reads);
    // final state + ownership + clean close + reopen
    let fin = (|| -> Result<(u64, Vec<(u64, Vec<u8>)>), redb::Error> {
        let t = db.begin_read()?;
        let a = t.open_table(A)?.get(0)?.map(|g| g.value()).unwrap_or(u64::MAX);
        Ok((a, dump_d(&t.open_table(D)?)?))
    })();
    match fin {
        Ok((a, d)) => {
            let exp: Vec<(u64, Vec<u8>)> = model_at(&commits, n).into_iter().collect();
            if a != n || d != exp {
                viol(out, "C03", "final-state", format!("final counter {a}, expected {n}; contents equal: {}", d == exp));
            }
        }
        Err(e) => viol(out, "C03", "final-read", format!("{e}")),
    }
    let o = ownership_audit(&db);
    if !o.skipped {
        out.lock().unwrap().audits += 1;
        for (tag, d) in o.problems {
            viol(out, "C06", &tag, d);
        }
    }
    match Arc::try_unwrap(db) {
        Ok(db) => drop(db),
        Err(_) => viol(out, "C20", "handle-leak", "a Database handle is still shared after all tasks finished".into()),
    }
    close_checks(&disk, out);
    // reopen: everything committed must be there (a clean close persists non-durable commits)
    let image = disk.st().live.clone();
    let d2 = SimDisk::new(image);
    d2.st().record = false;
    match builder(p).create_with_backend(d2.clone()) {
        Ok(db2) => {
            let r = (|| -> Result<(u64, Vec<(u64, Vec<u8>)>), redb::Error> {
                let t = db2.begin_read()?;
                let a = t.open_table(A)?.get(0)?.map(|g| g.value()).unwrap_or(u64::MAX);
                Ok((a, dump_d(&t.open_table(D)?)?))
            })();
            match r {
                Ok((a, d)) => {
                    let exp: Vec<(u64, Vec<u8>)> = model_at(&commits, n).into_iter().collect();
                    if a != n || d != exp {
                        viol(out, "C03", "reopen-state", format!("after reopen counter {a}, expected {n}"));
                    }
                }
                Err(e) => viol(out, "C03", "reopen-read", format!("{e}")),
            }
        }
        Err(e) => viol(out, "C03", "reopen", format!("reopen failed: {e}")),
    }
}

fn close_checks(disk: &SimDisk, out: &Shared) {
    let s = disk.st();
    for c in s.contract.iter() {
        viol(out, "C20", "contract", c.clone());
    }
    if s.close_count != 1 {
        viol(out, "C20", "close-count", format!("close() called {} times", s.close_count));
    }
}

fn writer_task(_wi: usize, db: &Database, txns: &[WTxn], out: &Shared, commits: &Mutex<Vec<Commit>>) {
    let mut sps: Vec<Savepoint> = vec![];
    for t in txns {
        api(K_BEGIN_WRITE);
        let mut txn = match db.begin_write() {
            Ok(t) => t,
            Err(e) => return viol(out, "C03", "begin_write", format!("{e}")),
        };
        let live = LIVE_WRITERS.with(|l| {
            l.set(l.get() + 1);
            l.get()
        });
        if live != 1 {
            viol(out, "C03", "two-writers", format!("{live} write transactions live at once"));
        }
        let r = (|| -> Result<Option<Commit>, redb::Error> {
            if !t.durable {
                txn.set_durability(Durability::None)?;
            }
            txn.set_two_phase_commit(t.two_phase);
            txn.set_quick_repair(t.quick_repair);
            if t.savepoint && sps.len() < 2 {
                api(K_BOUNDARY);
                sps.push(txn.ephemeral_savepoint()?);
            }
            let version;
            {
                api(K_OTHER);
                let mut a = txn.open_table(A)?;
                let mut b = txn.open_table(B)?;
                let mut c = txn.open_table(C)?;
                let mut d = txn.open_table(D)?;
                let ca = a.get(0)?.map(|g| g.value()).unwrap_or(u64::MAX);
                let cb = b.get(0)?.map(|g| g.value()).unwrap_or(u64::MAX);
                let cc = c.get(0)?.map(|g| g.value()).unwrap_or(u64::MAX);
                if ca != cb || cb != cc {
                    viol(out, "C03", "writer-torn", format!("a writer saw counters {ca}/{cb}/{cc}"));
                }
                version = ca + 1;
                api(K_OTHER);
                a.insert(0, version)?;
                for (k, len) in &t.ins {
                    api(K_OTHER);
                    d.insert(*k, val(version, *k, *len).as_slice())?;
                }
                b.insert(0, version)?;
                for k in &t.rem {
                    api(K_OTHER);
                    d.remove(*k)?;
                }
                c.insert(0, version)?;
                if t.abort {
                    d.insert(u64::MAX, b"ABORTED".as_slice())?;
                }
            }
            LIVE_WRITERS.with(|l| l.set(l.get() - 1));
            if t.abort {
                api(K_BOUNDARY);
                txn.abort()?;
                return Ok(None);
            }
            let call_ev = ev();
            api(K_COMMIT);
            txn.commit()?;
            let ret_ev = ev();
            Ok(Some(Commit { version, call_ev, ret_ev, ins: t.ins.clone(), rem: t.rem.clone() }))
        })();
        match r {
            Ok(Some(c)) => {
                commits.lock().unwrap().push(c);
                out.lock().unwrap().commits += 1;
            }
            Ok(None) => {}
            Err(e) => {
                viol(out, "C03", "writer-error", format!("{e}"));
                return;
            }
        }
        if t.drop_savepoint && !sps.is_empty() {
            api(K_BOUNDARY);
            sps.remove(0);
        }
    }
    for s in sps {
        api(K_BOUNDARY);
        drop(s);
    }
}

fn reader_task(ri: usize, db: &Database, rp: &RPlan, out: &Shared, reads: &Mutex<Vec<ReadObs>>) {
    for _ in 0..rp.reads {
        let call_ev = ev();
        api(K_BEGIN_READ);
        let txn = match db.begin_read() {
            Ok(t) => t,
            Err(e) => return viol(out, "C02", "begin_read", format!("{e}")),
        };
        let ret_ev = ev();
        let r = (|| -> Result<(), redb::Error> {
            api(K_OTHER);
            let a = txn.open_table(A)?.get(0)?.map(|g| g.value()).unwrap_or(u64::MAX);
            let b = txn.open_table(B)?.get(0)?.map(|g| g.value()).unwrap_or(u64::MAX);
            let c = txn.open_table(C)?.get(0)?.map(|g| g.value()).unwrap_or(u64::MAX);
            if a != b || b != c {
                viol(out, "C03", "torn-read", format!("a reader saw counters {a}/{b}/{c} in one snapshot"));
            }
            let d = txn.open_table(D)?;
            let first = dump_d(&d)?;
            let mut held = if rp.hold_iter { Some((d.range::<u64>(..)?, 0usize)) } else { None };
            out.lock().unwrap().reads += 1;
            for _ in 0..rp.rechecks {
                api(K_OTHER);
                shuttle::thread::yield_now();
                let a2 = txn.open_table(A)?.get(0)?.map(|g| g.value()).unwrap_or(u64::MAX);
                let again = dump_d(&d)?;
                out.lock().unwrap().rechecks += 1;
                if a2 != a || again != first {
                    viol(out, "C02", "snapshot-changed", format!("a reader at version {a} re-read its snapshot and got version {a2}, {} entries (first read {})", again.len(), first.len()));
                }
                if let Some((it, pos)) = held.as_mut() {
                    // advance the held iterator a little; it must continue the first dump
                    for _ in 0..3 {
                        match it.next() {
                            None => {
                                if *pos < first.len() {
                                    viol(out, "C02", "iterator-changed", format!("held iterator ended after {pos} of {} entries", first.len()));
                                }
                                break;
                            }
                            Some(e) => {
                                let (k, v) = e?;
                                if *pos >= first.len() || first[*pos] != (k.value(), v.value().to_vec()) {
                                    viol(out, "C02", "iterator-changed", format!("held iterator diverged from the snapshot at position {pos}"));
                                }
                                *pos += 1;
                            }
                        }
                    }
                }
            }
            reads.lock().unwrap().push(ReadObs { task: ri, version: a, call_ev, ret_ev, dump: first });
            Ok(())
        })();
        if let Err(e) = r {
            viol(out, "C02", "reader-error", format!("{e}"));
        }
        api(K_BOUNDARY);
        drop(txn);
    }
}

// ---------------------------------------------------------------------------------------------
// C16: one write transaction used from many tasks

fn tdef(i: usize) -> String {
    format!("t{i}")
}

fn shared(p: &Plan, tables: &[Vec<SOp>], prefill: u32, sp_concurrent: bool, sp_drop_racing: bool, abort: bool, durable: bool, out: &Shared) {
    let disk = SimDisk::new(vec![]);
    disk.st().record = false;
    let db = match builder(p).create_with_backend(disk.clone()) {
        Ok(d) => d,
        Err(e) => return viol(out, "C16", "create", format!("create failed: {e}")),
    };
    // model: table i -> map, multimap i -> set
    let mut model: Vec<BTreeMap<u64, Vec<u8>>> = vec![BTreeMap::new(); tables.len()];
    let mut mm_model: Vec<BTreeSet<(u64, u64)>> = vec![BTreeSet::new(); tables.len()];
    let names: Vec<String> = (0..tables.len()).map(tdef).collect();
    {
        let t = db.begin_write().unwrap();
        for (i, name) in names.iter().enumerate() {
            let mut tb = t.open_table(TableDefinition::<u64, &[u8]>::new(name)).unwrap();
            let mm_name = format!("m{i}");
            let mut mm = t.open_multimap_table(MultimapTableDefinition::<u64, u64>::new(&mm_name)).unwrap();
            for k in 0..prefill as u64 {
                let v = val(0, k + i as u64 * 1000, 40 + (k as u32 * 37) % 300);
                tb.insert(k, v.as_slice()).unwrap();
                model[i].insert(k, v);
                mm.insert(k % 3, k).unwrap();
                mm_model[i].insert((k % 3, k));
            }
        }
        t.commit().unwrap();
    }
    let pre_model = model.clone();
    let pre_mm = mm_model.clone();
    // a savepoint from before, dropped by another task while the commit runs
    let mut old_sp: Option<Savepoint> = None;
    if sp_drop_racing {
        let t = db.begin_write().unwrap();
        old_sp = t.ephemeral_savepoint().ok();
        t.abort().unwrap();
        // one more commit so that the savepoint pins freed pages
        let t = db.begin_write().unwrap();
        {
            let mut tb = t.open_table(TableDefinition::<u64, &[u8]>::new(&names[0])).unwrap();
            let v = val(9, 7, 200);
            tb.insert(7, v.as_slice()).unwrap();
            model[0].insert(7, v);
        }
        t.commit().unwrap();
    }
    let before = model.clone();
    let before_mm = mm_model.clone();
    api(K_BOUNDARY);
    let mut txn: WriteTransaction = db.begin_write().unwrap();
    if !durable {
        txn.set_durability(Durability::None).unwrap();
    }
    let got_sp: Mutex<Option<Result<Savepoint, String>>> = Mutex::new(None);
    let results: Mutex<Vec<(usize, Result<(), String>)>> = Mutex::new(vec![]);
    {
        let txn_ref = &txn;
        let names = &names;
        let got_sp = &got_sp;
        let results = &results;
        shuttle::thread::scope(|s| {
            for (i, ops) in tables.iter().enumerate() {
                s.spawn(move || {
                    let r = (|| -> Result<(), redb::Error> {
                        api(K_OTHER);
                        let mut tb = txn_ref.open_table(TableDefinition::<u64, &[u8]>::new(&names[i]))?;
                        let mm_name = format!("m{i}");
                        let mut mm = txn_ref.open_multimap_table(MultimapTableDefinition::<u64, u64>::new(&mm_name))?;
                        for op in ops {
                            api(K_OTHER);
                            match op {
                                SOp::Ins(k, len) => {
                                    tb.insert(*k, val(1, *k + i as u64 * 1000, *len).as_slice())?;
                                }
                                SOp::Rem(k) => {
                                    tb.remove(*k)?;
                                }
                                SOp::MmIns(k, v) => {
                                    mm.insert(*k, *v)?;
                                }
                                SOp::MmRem(k, v) => {
                                    mm.remove(*k, *v)?;
                                }
                            }
                        }
                        Ok(())
                    })();
                    results.lock().unwrap().push((i, r.map_err(|e| e.to_string())));
                });
            }
            if sp_concurrent {
                s.spawn(move || {
                    api(K_BOUNDARY);
                    let r = txn_ref.ephemeral_savepoint().map_err(|e| e.to_string());
                    *got_sp.lock().unwrap() = Some(r);
                });
            }
        });
    }
    for (i, r) in results.lock().unwrap().iter() {
        if let Err(e) = r {
            viol(out, "C16", "op-error", format!("operations on table {i} failed: {e}"));
        }
    }
    // apply the streams to the model, each on its own
    for (i, ops) in tables.iter().enumerate() {
        for op in ops {
            match op {
                SOp::Ins(k, len) => {
                    model[i].insert(*k, val(1, *k + i as u64 * 1000, *len));
                }
                SOp::Rem(k) => {
                    model[i].remove(k);
                }
                SOp::MmIns(k, v) => {
                    mm_model[i].insert((*k, *v));
                }
                SOp::MmRem(k, v) => {
                    mm_model[i].remove(&(*k, *v));
                }
            }
        }
    }
    // end the transaction, racing the drop of the old savepoint
    let dropper = old_sp.map(|sp| {
        shuttle::thread::spawn(move || {
            api(K_BOUNDARY);
            drop(sp);
        })
    });
    api(if abort { K_BOUNDARY } else { K_COMMIT });
    let end = if abort { txn.abort().map_err(|e| e.to_string()) } else { txn.commit().map_err(|e| e.to_string()) };
    if let Some(d) = dropper {
        let _ = d.join();
    }
    if let Err(e) = end {
        viol(out, "C16", "end-error", format!("ending the shared transaction failed: {e}"));
        return;
    }
    let (exp, exp_mm) = if abort { (&before, &before_mm) } else { (&model, &mm_model) };
    audit_shared(&db, &names, exp, exp_mm, out, "after the shared transaction");
    // a savepoint obtained concurrently either failed with InvalidSavepoint or restores correctly
    let sp = got_sp.lock().unwrap().take();
    if let Some(r) = sp {
        match r {
            Err(e) => {
                if !e.contains("nvalid") {
                    viol(out, "C16", "savepoint-error", format!("concurrent ephemeral_savepoint failed with: {e}"));
                }
            }
            Ok(sp) => {
                let r = (|| -> Result<(), String> {
                    let mut t = db.begin_write().map_err(|e| e.to_string())?;
                    t.restore_savepoint(&sp).map_err(|e| e.to_string())?;
                    t.commit().map_err(|e| e.to_string())?;
                    Ok(())
                })();
                match r {
                    Ok(()) => {
                        // the savepoint was taken at the start of the shared transaction
                        audit_shared(&db, &names, &before, &before_mm, out, "after restoring the concurrently created savepoint");
                    }
                    Err(e) => viol(out, "C16", "restore-error", format!("restoring the concurrently created savepoint failed: {e}")),
                }
                drop(sp);
                // two empty commits let pending frees drain before the ownership audit
                for _ in 0..2 {
                    if let Ok(t) = db.begin_write() {
                        let _ = t.commit();
                    }
                }
                let o = ownership_audit(&db);
                if !o.skipped {
                    for (tag, d) in o.problems {
                        viol(out, "C16", &format!("ownership-{tag}"), d);
                    }
                }
            }
        }
    }
    let _ = (&pre_model, &pre_mm);
    let mut db = db;
    match catch_unwind(AssertUnwindSafe(|| db.check_integrity())) {
        Ok(Ok(true)) => {}
        Ok(Ok(false)) => viol(out, "C16", "integrity-false", "check_integrity() returned Ok(false) after the shared transaction".into()),
        Ok(Err(e)) => viol(out, "C16", "integrity-error", format!("{e}")),
        Err(_) => viol(out, "C16", "integrity-panic", "check_integrity panicked".into()),
    }
    drop(db);
    close_checks(&disk, out);
}

fn audit_shared(db: &Database, names: &[String], exp: &[BTreeMap<u64, Vec<u8>>], exp_mm: &[BTreeSet<(u64, u64)>], out: &Shared, when: &str) {
    let r = (|| -> Result<(), redb::Error> {
        let t = db.begin_read()?;
        for (i, name) in names.iter().enumerate() {
            let tb = t.open_table(TableDefinition::<u64, &[u8]>::new(name))?;
            let got = dump_d(&tb)?;
            let e: Vec<(u64, Vec<u8>)> = exp[i].iter().map(|(k, v)| (*k, v.clone())).collect();
            if got != e || tb.len()? != e.len() as u64 {
                viol(out, "C16", "table-contents", format!("{when}: table {name} has {} entries, its own stream applied alone gives {}", got.len(), e.len()));
            }
            let mm_name = format!("m{i}");
            let mm = t.open_multimap_table(MultimapTableDefinition::<u64, u64>::new(&mm_name))?;
            let mut gotm = BTreeSet::new();
            for r in mm.iter()? {
                let (k, vals) = r?;
                for v in vals {
                    gotm.insert((k.value(), v?.value()));
                }
            }
            if gotm != exp_mm[i] || mm.len()? != exp_mm[i].len() as u64 {
                viol(out, "C16", "multimap-contents", format!("{when}: multimap {mm_name} has {} pairs, expected {}", gotm.len(), exp_mm[i].len()));
            }
        }
        Ok(())
    })();
    if let Err(e) = r {
        viol(out, "C16", "audit-error", format!("{when}: {e}"));
    }
    let o = ownership_audit(db);
    if !o.skipped {
        out.lock().unwrap().audits += 1;
        for (tag, d) in o.problems {
            viol(out, "C16", &format!("ownership-{tag}"), format!("{when}: {d}"));
        }
    }
}

// ---------------------------------------------------------------------------------------------
// C20 / C03: Database dropped while a write transaction is live

fn lifecycle(p: &Plan, ops: &[(u64, u32)], reader: bool, commit: bool, out: &Shared) {
    let disk = SimDisk::new(vec![]);
    disk.st().record = false;
    let db = match builder(p).create_with_backend(disk.clone()) {
        Ok(d) => d,
        Err(e) => return viol(out, "C20", "create", format!("create failed: {e}")),
    };
    {
        let t = db.begin_write().unwrap();
        {
            let mut d = t.open_table(D).unwrap();
            d.insert(1, val(0, 1, 100).as_slice()).unwrap();
        }
        t.commit().unwrap();
    }
    let txn = db.begin_write().unwrap();
    let rtxn = if reader { db.begin_read().ok() } else { None };
    let ops2 = ops.to_vec();
    let out2 = out.clone();
    let disk2 = disk.clone();
    let t1 = shuttle::thread::spawn(move || {
        let r = (|| -> Result<(), redb::Error> {
            {
                let mut d = txn.open_table(D)?;
                for (k, len) in &ops2 {
                    api(K_OTHER);
                    d.insert(*k, val(1, *k, *len).as_slice())?;
                    if disk2.st().closed {
                        viol(&out2, "C20", "early-close", "backend closed while the write transaction was still live".into());
                    }
                }
            }
            api(if commit { K_COMMIT } else { K_BOUNDARY });
            if commit { txn.commit()? } else { txn.abort()? }
            Ok(())
        })();
        if let Err(e) = r {
            viol(&out2, "C20", "txn-after-drop", format!("write transaction failed after the Database was dropped: {e}"));
        }
    });
    let t2 = shuttle::thread::spawn(move || {
        api(K_BOUNDARY);
        drop(db);
    });
    let out3 = out.clone();
    let t3 = rtxn.map(|r| {
        shuttle::thread::spawn(move || {
            api(K_OTHER);
            // a reader outliving the Database either still works or reports DatabaseClosed
            let res = (|| -> Result<usize, redb::Error> { Ok(dump_d(&r.open_table(D)?)?.len()) })();
            if let Ok(n) = res
                && n != 1
            {
                viol(&out3, "C02", "snapshot-changed", format!("reader begun before the drop saw {n} entries, expected 1"));
            }
            api(K_BOUNDARY);
            drop(r);
        })
    });
    let _ = t1.join();
    let _ = t2.join();
    if let Some(t) = t3 {
        let _ = t.join();
    }
    close_checks(&disk, out);
    let image = disk.st().live.clone();
    let d2 = SimDisk::new(image);
    d2.st().record = false;
    match builder(p).create_with_backend(d2) {
        Ok(db2) => {
            let r = (|| -> Result<Vec<(u64, Vec<u8>)>, redb::Error> { Ok(dump_d(&db2.begin_read()?.open_table(D)?)?) })();
            let mut exp: BTreeMap<u64, Vec<u8>> = BTreeMap::new();
            exp.insert(1, val(0, 1, 100));
            if commit {
                for (k, len) in ops {
                    exp.insert(*k, val(1, *k, *len));
                }
            }
            match r {
                Ok(d) => {
                    if d != exp.into_iter().collect::<Vec<_>>() {
                        viol(out, "C03", "deferred-close-state", "contents after the deferred close differ from the committed state".into());
                    }
                }
                Err(e) => viol(out, "C20", "reopen-read", format!("{e}")),
            }
        }
        Err(e) => viol(out, "C20", "reopen", format!("reopen after deferred close failed: {e}")),
    }
}

// ---------------------------------------------------------------------------------------------
// C13 under schedules: compact() racing the end of a write transaction

fn compact_race(p: &Plan, ops: &[(u64, u32)], prefill: u32, savepoint: bool, reader: bool, commit: bool, out: &Shared) {
    let disk = SimDisk::new(vec![]);
    disk.st().record = false;
    let db = match builder(p).create_with_backend(disk.clone()) {
        Ok(d) => d,
        Err(e) => return viol(out, "C13", "create", format!("create failed: {e}")),
    };
    let mut model: BTreeMap<u64, Vec<u8>> = BTreeMap::new();
    {
        // fragmented start: fill, then delete every other key
        let t = db.begin_write().unwrap();
        {
            let mut d = t.open_table(D).unwrap();
            for k in 0..prefill as u64 {
                let v = val(0, k, 60 + (k as u32 * 97) % (2 * p.page_size));
                d.insert(k, v.as_slice()).unwrap();
                model.insert(k, v);
            }
        }
        t.commit().unwrap();
        let t = db.begin_write().unwrap();
        {
            let mut d = t.open_table(D).unwrap();
            for k in (0..prefill as u64).step_by(2) {
                d.remove(k).unwrap();
                model.remove(&k);
            }
        }
        t.commit().unwrap();
    }
    let rtxn = if reader { db.begin_read().ok() } else { None };
    let txn = db.begin_write().unwrap();
    let done = Arc::new(AtomicBool::new(false));
    let held_since = Arc::new(AtomicU64::new(0));
    let released = Arc::new(AtomicU64::new(0));
    let (done_w, held_w, out_w, ops_w, released_w) = (done.clone(), held_since.clone(), out.clone(), ops.to_vec(), released.clone());
    let w = shuttle::thread::spawn(move || {
        let mut sp = None;
        let r = (|| -> Result<(), redb::Error> {
            if savepoint {
                api(K_BOUNDARY);
                sp = Some(txn.ephemeral_savepoint()?);
            }
            held_w.store(ev(), Ordering::SeqCst);
            {
                let mut d = txn.open_table(D)?;
                for (k, len) in &ops_w {
                    api(K_OTHER);
                    d.insert(*k, val(1, *k, *len).as_slice())?;
                }
            }
            api(if commit { K_COMMIT } else { K_BOUNDARY });
            if commit { txn.commit()? } else { txn.abort()? }
            Ok(())
        })();
        if let Err(e) = r {
            viol(&out_w, "C13", "writer-error", format!("{e}"));
        }
        // keep the savepoint / reader alive until the compaction call has returned
        let mut spins = 0u64;
        while !done_w.load(Ordering::SeqCst) {
            api(K_OTHER);
            shuttle::thread::yield_now();
            spins += 1;
            if spins > 200_000 {
                break;
            }
        }
        released_w.store(ev(), Ordering::SeqCst);
        api(K_BOUNDARY);
        drop(sp);
        drop(rtxn);
    });
    let done_c = done.clone();
    let c = shuttle::thread::spawn(move || {
        let mut db = db;
        api(K_BOUNDARY);
        let res = db.compact().map_err(|e| e.to_string());
        let ret = ev();
        done_c.store(true, Ordering::SeqCst);
        (db, res, ret)
    });
    let _ = w.join();
    let Ok((db, res, ret)) = c.join() else {
        return viol(out, "C13", "panic", format!("compact() panicked: {}", LAST_PANIC.with(|p| p.borrow().clone())));
    };
    // the savepoint / reader counts as alive for the whole call only if it was released after
    // compact() had returned
    let pinned = (savepoint || reader) && released.load(Ordering::SeqCst) > ret;
    if (savepoint || reader) && !pinned {
        // the writer gave up waiting (step budget of its wait loop): nothing to judge about refusal
    }
    match (&res, pinned) {
        (Ok(_), true) => viol(out, "C13", "compact-not-refused", format!("compact() returned {res:?} although a savepoint ({savepoint}) or read transaction ({reader}) was alive for the whole call")),
        (Err(e), false) if !(savepoint || reader) => viol(out, "C13", "compact-error", format!("compact() failed with nothing alive: {e}")),
        (Err(_), false) => {}
        (Err(e), true) => {
            if !(e.contains("avepoint") || e.contains("ransaction")) {
                viol(out, "C13", "compact-error", format!("compact() refused with an unexpected error: {e}"));
            }
        }
        (Ok(_), false) => {}
    }
    if commit {
        for (k, len) in ops {
            model.insert(*k, val(1, *k, *len));
        }
    }
    let got = (|| -> Result<Vec<(u64, Vec<u8>)>, redb::Error> { Ok(dump_d(&db.begin_read()?.open_table(D)?)?) })();
    match got {
        Ok(d) => {
            if d != model.into_iter().collect::<Vec<_>>() {
                viol(out, "C13", "contents", "table contents changed across the compaction race".into());
            }
        }
        Err(e) => viol(out, "C13", "read-error", format!("{e}")),
    }
    let o = ownership_audit(&db);
    if !o.skipped {
        out.lock().unwrap().audits += 1;
        for (tag, d) in o.problems {
            viol(out, "C06", &tag, d);
        }
    }
    drop(db);
    close_checks(&disk, out);
}

// ---------------------------------------------------------------------------------------------
// plans

fn draw_wtxn(rng: &mut Rng, keyspace: u64, page: u32) -> WTxn {
    let durable = rng.chance(3, 5);
    let n_ins = rng.below(5);
    let n_rem = rng.below(4);
    WTxn {
        durable,
        two_phase: durable && rng.chance(1, 4),
        quick_repair: durable && rng.chance(1, 6),
        abort: rng.chance(1, 8),
        savepoint: rng.chance(1, 8),
        drop_savepoint: rng.chance(1, 6),
        ins: (0..n_ins).map(|_| (rng.below(keyspace), *rng.pick(&[8u32, 60, page / 3, page / 2 + 9, page + 30, 3 * page]))).collect(),
        rem: (0..n_rem).map(|_| rng.below(keyspace)).collect(),
    }
}

pub fn draw_plan(seed: u64, exec: u64, prop: &str, thorough: bool) -> Plan {
    let mut rng = Rng::new(mix(seed, exec));
    let page_size = *rng.pick(&[512u32, 512, 1024, 4096]);
    let region_pages = *rng.pick(&[Some(64u32), Some(128), None]);
    let cache = *rng.pick(&[0u64, page_size as u64, 4 * page_size as u64, 1 << 20]);
    let which = match prop {
        "C16" => 1,
        "C20" => 2,
        "C13" => 3,
        "C02" => 0,
        _ => {
            if rng.chance(1, 8) {
                2
            } else {
                0
            }
        }
    };
    let (scenario, ntasks) = match which {
        0 => {
            let nw = rng.range(1, 2) as usize;
            let nr = if prop == "C02" { rng.range(1, 2) as usize } else { rng.range(0, 2) as usize };
            let keyspace = *rng.pick(&[4u64, 8, 24]);
            let writers: Vec<Vec<WTxn>> = (0..nw).map(|_| (0..rng.range(1, 4)).map(|_| draw_wtxn(&mut rng, keyspace, page_size)).collect()).collect();
            let readers: Vec<RPlan> = (0..nr)
                .map(|_| RPlan { reads: rng.range(1, 3) as u32, rechecks: if prop == "C02" { rng.range(1, 3) as u32 } else { rng.below(2) as u32 }, hold_iter: rng.chance(1, 2) })
                .collect();
            let mut infos: Vec<TaskInfo> = vec![];
            for w in &writers {
                let commits = w.iter().filter(|t| !t.abort).count() as u32;
                let n = w.len() as u32;
                let sp = w.iter().filter(|t| t.savepoint || t.drop_savepoint).count() as u32;
                let ops: u32 = w.iter().map(|t| 2 + t.ins.len() as u32 + t.rem.len() as u32).sum();
                infos.push(TaskInfo { calls: 2 * n + sp + ops, boundary: 2 * n + sp, commits, begin_reads: 0, begin_writes: n });
            }
            for r in &readers {
                infos.push(TaskInfo { calls: r.reads * (3 + r.rechecks), boundary: 2 * r.reads, commits: 0, begin_reads: r.reads, begin_writes: 0 });
            }
            (Scenario::Bank { writers, readers }, infos)
        }
        1 => {
            let nt = rng.range(2, 4) as usize;
            let tables: Vec<Vec<SOp>> = (0..nt)
                .map(|_| {
                    (0..rng.range(1, 8))
                        .map(|_| match rng.below(10) {
                            0..=4 => SOp::Ins(rng.below(12), *rng.pick(&[10u32, 90, page_size / 2 + 5, page_size + 40, 3 * page_size])),
                            5..=6 => SOp::Rem(rng.below(12)),
                            7..=8 => SOp::MmIns(rng.below(3), rng.below(200)),
                            _ => SOp::MmRem(rng.below(3), rng.below(12)),
                        })
                        .collect()
                })
                .collect();
            let sp_concurrent = rng.chance(1, 2);
            let mut infos: Vec<TaskInfo> = tables.iter().map(|ops: &Vec<SOp>| TaskInfo { calls: 1 + ops.len() as u32, boundary: 0, commits: 0, begin_reads: 0, begin_writes: 0 }).collect();
            if sp_concurrent {
                infos.push(TaskInfo { calls: 1, boundary: 1, commits: 0, begin_reads: 0, begin_writes: 0 });
            }
            (Scenario::Shared { tables, prefill: rng.range(0, 10) as u32, sp_concurrent, sp_drop_racing: rng.chance(1, 3), abort: rng.chance(1, 5), durable: rng.chance(3, 4) }, infos)
        }
        3 => {
            let ops: Vec<(u64, u32)> = (0..rng.range(0, 4)).map(|_| (rng.below(40), *rng.pick(&[10u32, 300, page_size + 9]))).collect();
            let savepoint = rng.chance(1, 2);
            let reader = !savepoint && rng.chance(1, 2);
            let commit = rng.chance(3, 4);
            let infos = vec![
                TaskInfo { calls: 3 + ops.len() as u32, boundary: 2 + savepoint as u32, commits: commit as u32, begin_reads: 0, begin_writes: 0 },
                TaskInfo { calls: 1, boundary: 1, commits: 0, begin_reads: 0, begin_writes: 0 },
            ];
            (Scenario::Compact { ops, prefill: rng.range(0, 40) as u32, savepoint, reader, commit }, infos)
        }
        _ => {
            let ops: Vec<(u64, u32)> = (0..rng.range(1, 5)).map(|_| (rng.below(16), *rng.pick(&[10u32, 300, page_size + 9]))).collect();
            let reader = rng.chance(1, 2);
            let commit = rng.chance(3, 4);
            let mut infos = vec![
                TaskInfo { calls: 1 + ops.len() as u32, boundary: 1, commits: commit as u32, begin_reads: 0, begin_writes: 0 },
                TaskInfo { calls: 1, boundary: 1, commits: 0, begin_reads: 0, begin_writes: 0 },
            ];
            if reader {
                infos.push(TaskInfo { calls: 2, boundary: 1, commits: 0, begin_reads: 0, begin_writes: 0 });
            }
            (Scenario::Lifecycle { ops, reader, commit }, infos)
        }
    };
    let sched = draw_sched(&mut rng, &ntasks, thorough);
    Plan { page_size, region_pages, cache, scenario, sched }
}

// ---------------------------------------------------------------------------------------------
// running

pub struct ExecResult {
    pub viols: Vec<Viol>,
    pub hash: u64,
    pub steps: u64,
    pub switches: u64,
    pub stalls_fired: u64,
    pub commits: u64,
    pub reads: u64,
    pub rechecks: u64,
    pub audits: u64,
    pub deadlock: bool,
}

pub fn run_plan(plan: &Plan) -> ExecResult {
    reset_marks();
    SEQ.with(|s| s.set(0));
    LIVE_WRITERS.with(|l| l.set(0));
    LAST_STATS.with(|s| *s.borrow_mut() = Default::default());
    let out: Shared = Arc::new(Mutex::new(Out::default()));
    let out2 = out.clone();
    let p = plan.clone();
    let mut cfg = shuttle::Config::new();
    cfg.stack_size = 1 << 20;
    cfg.max_steps = shuttle::MaxSteps::FailAfter(3_000_000);
    cfg.failure_persistence = shuttle::FailurePersistence::None;
    cfg.silence_warnings = true;
    let sched = Sched::new(&plan.sched);
    let r = catch_unwind(AssertUnwindSafe(|| {
        let runner = shuttle::Runner::new(sched, cfg);
        runner.run(move || match &p.scenario {
            Scenario::Bank { writers, readers } => bank(&p, writers, readers, &out2),
            Scenario::Shared { tables, prefill, sp_concurrent, sp_drop_racing, abort, durable } => {
                shared(&p, tables, *prefill, *sp_concurrent, *sp_drop_racing, *abort, *durable, &out2)
            }
            Scenario::Lifecycle { ops, reader, commit } => lifecycle(&p, ops, *reader, *commit, &out2),
            Scenario::Compact { ops, prefill, savepoint, reader, commit } => compact_race(&p, ops, *prefill, *savepoint, *reader, *commit, &out2),
        });
    }));
    let st = LAST_STATS.with(|s| s.borrow().clone());
    let mut o = out.lock().unwrap_or_else(|e| e.into_inner());
    let mut viols = std::mem::take(&mut o.viols);
    let mut deadlock = false;
    if r.is_err() {
        let msg = LAST_PANIC.with(|p| p.borrow().clone());
        let under = PROP.with(|p| p.borrow().clone());
        let prop: &str = if !under.is_empty() {
            &under
        } else {
            match plan.scenario {
                Scenario::Shared { .. } => "C16",
                Scenario::Lifecycle { .. } => "C20",
                Scenario::Compact { .. } => "C13",
                _ => "C03",
            }
        };
        if msg.contains("deadlock") {
            deadlock = true;
            viols.insert(0, Viol { prop: prop.into(), tag: "deadlock".into(), detail: format!("every task is blocked (lost wake-up, lock cycle, or a lock poisoned by a panic in another task): {msg}") });
        } else if (msg.contains("exceeded max_steps") || msg.contains("max_steps")) && matches!(plan.scenario, Scenario::Compact { .. }) {
            viols.insert(0, Viol { prop: "C13".into(), tag: "unbounded".into(), detail: format!("the compaction race did not finish within the step budget (compact() keeps committing without terminating): {msg}") });
        } else if msg.contains("exceeded max_steps") || msg.contains("max_steps") {
            viols.insert(0, Viol { prop: "HARNESS".into(), tag: "max-steps".into(), detail: msg });
        } else {
            viols.insert(0, Viol { prop: prop.into(), tag: "panic".into(), detail: format!("panic during the execution: {msg}") });
        }
    }
    ExecResult { viols, hash: st.hash, steps: st.steps, switches: st.switches, stalls_fired: st.stalls_fired, commits: o.commits, reads: o.reads, rechecks: o.rechecks, audits: o.audits, deadlock }
}

#[derive(Serialize, Deserialize)]
pub struct Replay {
    pub property: String,
    pub engine: String,
    pub seed: u64,
    pub exec: u64,
    pub plan: Plan,
    pub expect: Viol,
    pub schedule_hash: u64,
}

fn same_class(a: &Viol, b: &Viol) -> bool {
    a.prop == b.prop && a.tag == b.tag
}

/// shrink the scenario (fewer tasks / transactions / ops); each candidate is re-searched over a
/// bounded number of scheduler seeds because removing work shifts the scheduling points
fn minimise(rep: &Replay, max_secs: u64) -> Replay {
    let start = Instant::now();
    let mut best = Replay { property: rep.property.clone(), engine: rep.engine.clone(), seed: rep.seed, exec: rep.exec, plan: rep.plan.clone(), expect: rep.expect.clone(), schedule_hash: rep.schedule_hash };
    if std::env::var_os("VERIF_NO_MIN").is_some() {
        return best;
    }
    let try_plan = |plan: &Plan| -> Option<(Plan, Viol, u64)> {
        let r = run_plan(plan);
        if let Some(v) = r.viols.first()
            && same_class(v, &rep.expect)
        {
            return Some((plan.clone(), v.clone(), r.hash));
        }
        let mut rng = Rng::new(mix(rep.seed, rep.exec) ^ 0xabcdef);
        let ntasks = match &plan.scenario {
            Scenario::Bank { writers, readers } => writers.len() + readers.len(),
            Scenario::Shared { tables, sp_concurrent, .. } => tables.len() + *sp_concurrent as usize,
            Scenario::Lifecycle { reader, .. } => 2 + *reader as usize,
            Scenario::Compact { .. } => 2,
        };
        let infos: Vec<TaskInfo> = (0..ntasks.max(1)).map(|_| TaskInfo { calls: 12, boundary: 4, commits: 2, begin_reads: 2, begin_writes: 2 }).collect();
        for _ in 0..60 {
            let mut p2 = plan.clone();
            p2.sched = draw_sched(&mut rng, &infos, false);
            let r = run_plan(&p2);
            if let Some(v) = r.viols.first()
                && same_class(v, &rep.expect)
            {
                return Some((p2, v.clone(), r.hash));
            }
        }
        None
    };
    let mut progress = true;
    while progress && start.elapsed().as_secs() < max_secs {
        progress = false;
        let mut cands: Vec<Plan> = vec![];
        match &best.plan.scenario {
            Scenario::Bank { writers, readers } => {
                for i in 0..writers.len() {
                    if writers.len() > 1 {
                        let mut w = writers.clone();
                        w.remove(i);
                        cands.push(Plan { scenario: Scenario::Bank { writers: w, readers: readers.clone() }, ..best.plan.clone() });
                    }
                    for j in 0..writers[i].len() {
                        if writers[i].len() > 1 {
                            let mut w = writers.clone();
                            w[i].remove(j);
                            cands.push(Plan { scenario: Scenario::Bank { writers: w, readers: readers.clone() }, ..best.plan.clone() });
                        }
                        for k in 0..writers[i][j].ins.len() {
                            let mut w = writers.clone();
                            w[i][j].ins.remove(k);
                            cands.push(Plan { scenario: Scenario::Bank { writers: w, readers: readers.clone() }, ..best.plan.clone() });
                        }
                        for k in 0..writers[i][j].rem.len() {
                            let mut w = writers.clone();
                            w[i][j].rem.remove(k);
                            cands.push(Plan { scenario: Scenario::Bank { writers: w, readers: readers.clone() }, ..best.plan.clone() });
                        }
                    }
                }
                for i in 0..readers.len() {
                    let mut r = readers.clone();
                    r.remove(i);
                    cands.push(Plan { scenario: Scenario::Bank { writers: writers.clone(), readers: r }, ..best.plan.clone() });
                }
            }
            Scenario::Shared { tables, prefill, sp_concurrent, sp_drop_racing, abort, durable } => {
                for i in 0..tables.len() {
                    for j in 0..tables[i].len() {
                        let mut t = tables.clone();
                        t[i].remove(j);
                        cands.push(Plan { scenario: Scenario::Shared { tables: t, prefill: *prefill, sp_concurrent: *sp_concurrent, sp_drop_racing: *sp_drop_racing, abort: *abort, durable: *durable }, ..best.plan.clone() });
                    }
                }
                if *sp_drop_racing {
                    cands.push(Plan { scenario: Scenario::Shared { tables: tables.clone(), prefill: *prefill, sp_concurrent: *sp_concurrent, sp_drop_racing: false, abort: *abort, durable: *durable }, ..best.plan.clone() });
                }
                if *prefill > 0 {
                    cands.push(Plan { scenario: Scenario::Shared { tables: tables.clone(), prefill: 0, sp_concurrent: *sp_concurrent, sp_drop_racing: *sp_drop_racing, abort: *abort, durable: *durable }, ..best.plan.clone() });
                }
            }
            Scenario::Compact { ops, prefill, savepoint, reader, commit } => {
                for i in 0..ops.len() {
                    let mut o = ops.clone();
                    o.remove(i);
                    cands.push(Plan { scenario: Scenario::Compact { ops: o, prefill: *prefill, savepoint: *savepoint, reader: *reader, commit: *commit }, ..best.plan.clone() });
                }
                if *prefill > 0 {
                    cands.push(Plan { scenario: Scenario::Compact { ops: ops.clone(), prefill: prefill / 2, savepoint: *savepoint, reader: *reader, commit: *commit }, ..best.plan.clone() });
                }
            }
            Scenario::Lifecycle { ops, reader, commit } => {
                for i in 0..ops.len() {
                    if ops.len() > 1 {
                        let mut o = ops.clone();
                        o.remove(i);
                        cands.push(Plan { scenario: Scenario::Lifecycle { ops: o, reader: *reader, commit: *commit }, ..best.plan.clone() });
                    }
                }
                if *reader {
                    cands.push(Plan { scenario: Scenario::Lifecycle { ops: ops.clone(), reader: false, commit: *commit }, ..best.plan.clone() });
                }
            }
        }
        for c in cands {
            if start.elapsed().as_secs() >= max_secs {
                break;
            }
            if let Some((p, v, h)) = try_plan(&c) {
                best.plan = p;
                best.expect = v;
                best.schedule_hash = h;
                progress = true;
                break;
            }
        }
    }
    best
}

pub fn cli(args: &[String]) -> i32 {
    std::panic::set_hook(Box::new(|info| {
        let msg: String = info.to_string().chars().take(500).collect();
        LAST_PANIC.with(|p| *p.borrow_mut() = msg);
    }));
    let get = |k: &str| args.iter().position(|a| a == k).and_then(|i| args.get(i + 1)).cloned();
    match args.first().map(|s| s.as_str()) {
        Some("replay") => {
            let path = args.get(1).cloned().unwrap_or_default();
            let Ok(text) = std::fs::read_to_string(&path) else {
                eprintln!("cannot read {path}");
                return 2;
            };
            let rep: Replay = match serde_json::from_str(&text) {
                Ok(r) => r,
                Err(e) => {
                    eprintln!("bad replay file: {e}");
                    return 2;
                }
            };
            PROP.with(|p| *p.borrow_mut() = rep.property.clone());
            let r = run_plan(&rep.plan);
            println!("schedule hash {:016x} (recorded {:016x}), {} steps, {} context switches", r.hash, rep.schedule_hash, r.steps, r.switches);
            match r.viols.first() {
                Some(v) => {
                    println!("replayed: property={} tag={} detail={}", v.prop, v.tag, v.detail);
                    println!("VIOLATION property={} replay={}", v.prop, path);
                    1
                }
                None => {
                    println!("replay of {path}: no violation");
                    0
                }
            }
        }
        Some("explore") => explore(
            &get("--prop").unwrap_or("C03".into()),
            &get("--tier").unwrap_or("quick".into()),
            get("--execs").and_then(|s| s.parse().ok()).unwrap_or(2000),
            get("--max-secs").and_then(|s| s.parse().ok()).unwrap_or(120),
            get("--threads").and_then(|s| s.parse().ok()).unwrap_or(16),
            get("--status-dir"),
            get("--only").and_then(|s| s.parse().ok()),
        ),
        Some("mkreplay") => {
            let prop = get("--prop").unwrap_or("C03".into());
            let tier = get("--tier").unwrap_or("quick".into());
            let seed = std::env::var("VERIF_SEED").ok().and_then(|s| s.parse().ok()).unwrap_or(20260922u64);
            let e: u64 = get("--run").and_then(|s| s.parse().ok()).unwrap_or(0);
            let out = get("--out").unwrap_or("/tmp/replay.json".into());
            let rep = Replay {
                property: prop.clone(),
                engine: "sched".into(),
                seed,
                exec: e,
                plan: draw_plan(seed, e, &prop, tier == "thorough"),
                expect: Viol { prop, tag: "process-abort".into(), detail: get("--detail").unwrap_or_default() },
                schedule_hash: 0,
            };
            std::fs::write(&out, serde_json::to_string_pretty(&rep).unwrap()).unwrap();
            0
        }
        Some("probe") => {
            // scratch: sweep the stall point inside the writer's 2nd commit
            let mk = |durable: bool| WTxn { durable, two_phase: false, quick_repair: false, abort: false, savepoint: false, drop_savepoint: false, ins: vec![(1, 300), (2, 700)], rem: vec![] };
            let mut hits = 0;
            for point in (0..4000u32).step_by(7) {
                let plan = Plan {
                    page_size: 512,
                    region_pages: Some(64),
                    cache: 1 << 20,
                    scenario: Scenario::Bank { writers: vec![vec![mk(false), mk(true)]], readers: vec![RPlan { reads: 1, rechecks: 0, hold_iter: false }] },
                    sched: SchedPlan::Stall { seed: 7, stalls: vec![crate::stall::Stall { victim: 1, nth: 2, kind: Some(K_COMMIT), point, release_after: 1000, hold: Some(2) }] },
                };
                let r = run_plan(&plan);
                if let Some(v) = r.viols.first() {
                    hits += 1;
                    println!("point {point}: {} {} {}", v.prop, v.tag, &v.detail[..v.detail.len().min(120)]);
                } else if point % 700 == 0 {
                    println!("point {point}: none (stalls fired {}, steps {})", r.stalls_fired, r.steps);
                }
            }
            println!("hits {hits}");
            0
        }
        Some("determinism") => {
            // every plan executed twice must take the same interleaving and reach the same verdict
            let n: u64 = get("--execs").and_then(|s| s.parse().ok()).unwrap_or(200);
            let seed = std::env::var("VERIF_SEED").ok().and_then(|s| s.parse().ok()).unwrap_or(20260922u64);
            let mut bad = 0;
            for prop in ["C03", "C02", "C16", "C20", "C13"] {
                for e in 0..n {
                    let plan = draw_plan(seed, e, prop, true);
                    let a = run_plan(&plan);
                    let b = run_plan(&plan);
                    if a.hash != b.hash || a.viols != b.viols || a.steps != b.steps {
                        println!("NONDETERMINISM prop={prop} exec={e}: {:x}/{:x} steps {}/{}", a.hash, b.hash, a.steps, b.steps);
                        bad += 1;
                    }
                }
            }
            println!("determinism: {} plans x2, {bad} divergences", 5 * n);
            if bad > 0 { 2 } else { 0 }
        }
        _ => {
            eprintln!("usage: sched explore --prop Cxx [--execs N] [--max-secs S] [--threads T] [--tier quick|thorough] | sched replay <file> | sched determinism");
            2
        }
    }
}

/// listed known findings (/verif/known_findings.json, read-only): property, oracle tag and a detail
/// substring must all match
fn known_finding(v: &Viol) -> Option<String> {
    let p = std::env::var("VERIF_KNOWN").unwrap_or("/verif/known_findings.json".into());
    let text = std::fs::read_to_string(p).ok()?;
    let j: serde_json::Value = serde_json::from_str(&text).ok()?;
    for f in j.get("findings")?.as_array()? {
        let g = |k: &str| f.get(k).and_then(|x| x.as_str()).unwrap_or("");
        if g("property") == v.prop && g("tag") == v.tag && !g("detail_contains").is_empty() && v.detail.contains(g("detail_contains")) {
            return Some(g("what").to_string());
        }
    }
    None
}

fn explore(prop: &str, tier: &str, execs: u64, max_secs: u64, threads: usize, status_dir: Option<String>, only: Option<u64>) -> i32 {
    let known = Mutex::new(std::collections::BTreeSet::<String>::new());
    let seed = std::env::var("VERIF_SEED").ok().and_then(|s| s.parse().ok()).unwrap_or(20260922u64);
    let thorough = tier == "thorough";
    PROP.with(|p| *p.borrow_mut() = prop.to_string());
    let start = Instant::now();
    let next = AtomicU64::new(0);
    let stop = AtomicBool::new(false);
    #[derive(Default)]
    struct Agg {
        execs: u64,
        steps: u64,
        switches: u64,
        stalls_fired: u64,
        commits: u64,
        reads: u64,
        rechecks: u64,
        audits: u64,
        by_sched: BTreeMap<String, u64>,
        by_scenario: BTreeMap<String, u64>,
        nontrivial: u64,
    }
    let agg = Mutex::new(Agg::default());
    let hashes = Mutex::new(BTreeSet::<u64>::new());
    let found = Mutex::new(Vec::<(u64, Viol, u64)>::new());
    let harness = Mutex::new(Vec::<String>::new());
    let samples = Mutex::new(Vec::<serde_json::Value>::new());
    if let Some(o) = only {
        next.store(o, Ordering::Relaxed);
    }
    let last = only.map_or(execs, |x| x + 1);
    let threads = if only.is_some() { 1 } else { threads };
    if let Some(d) = &status_dir {
        let _ = std::fs::create_dir_all(d);
    }
    let tid = AtomicU64::new(0);
    std::thread::scope(|s| {
        for _ in 0..threads {
            s.spawn(|| {
              let my = tid.fetch_add(1, Ordering::Relaxed);
              PROP.with(|p| *p.borrow_mut() = prop.to_string());
              let status = status_dir.as_ref().and_then(|d| std::fs::File::create(format!("{d}/t{my}")).ok());
              loop {
                if stop.load(Ordering::Relaxed) || start.elapsed().as_secs() >= max_secs {
                    break;
                }
                let e = next.fetch_add(1, Ordering::Relaxed);
                if e >= last {
                    break;
                }
                if let Some(f) = &status {
                    use std::os::unix::fs::FileExt;
                    let _ = f.write_all_at(format!("{e:<20}").as_bytes(), 0);
                }
                let plan = draw_plan(seed, e, prop, thorough);
                let r = run_plan(&plan);
                {
                    let mut a = agg.lock().unwrap();
                    a.execs += 1;
                    a.steps += r.steps;
                    a.switches += r.switches;
                    a.stalls_fired += r.stalls_fired;
                    a.commits += r.commits;
                    a.reads += r.reads;
                    a.rechecks += r.rechecks;
                    a.audits += r.audits;
                    let sk = match &plan.sched {
                        SchedPlan::Stall { .. } => "stall",
                        SchedPlan::Random { .. } => "random",
                        SchedPlan::Pct { .. } => "pct",
                    };
                    *a.by_sched.entry(sk.into()).or_default() += 1;
                    let sc = match &plan.scenario {
                        Scenario::Bank { .. } => "bank",
                        Scenario::Shared { .. } => "shared-write-transaction",
                        Scenario::Lifecycle { .. } => "lifecycle",
                        Scenario::Compact { .. } => "compaction-race",
                    };
                    *a.by_scenario.entry(sc.into()).or_default() += 1;
                    if r.switches > 0 {
                        a.nontrivial += 1;
                    }
                }
                if r.switches > 0 {
                    hashes.lock().unwrap().insert(r.hash);
                }
                if e < 2 {
                    samples.lock().unwrap().push(json!({"exec": e, "plan": plan}));
                }
                if let Some(v) = r.viols.first()
                    && let Some(k) = known_finding(v)
                {
                    known.lock().unwrap().insert(format!("KNOWN-FINDING: property={} {}", v.prop, k));
                    continue;
                }
                if let Some(v) = r.viols.first() {
                    if v.prop == "HARNESS" {
                        harness.lock().unwrap().push(format!("exec {e}: {}", v.detail));
                    } else {
                        found.lock().unwrap().push((e, v.clone(), r.hash));
                    }
                    stop.store(true, Ordering::Relaxed);
                }
              }
              if let Some(f) = &status {
                  use std::os::unix::fs::FileExt;
                  let _ = f.write_all_at(format!("{:<20}", "done").as_bytes(), 0);
              }
            });
        }
    });
    for k in known.into_inner().unwrap() {
        println!("{k}");
    }
    let a = agg.into_inner().unwrap();
    let distinct = hashes.into_inner().unwrap().len() as u64;
    let mut found = found.into_inner().unwrap();
    found.sort_by_key(|f| f.0);
    let harness = harness.into_inner().unwrap();
    let mut code = 0;
    let mut violations = 0;
    if let Some(h) = harness.first() {
        println!("HARNESS-ERROR: {h}");
        code = 2;
    }
    if let Some((e, v, h)) = found.first().cloned() {
        violations = 1;
        let rep = Replay { property: v.prop.clone(), engine: "sched".into(), seed, exec: e, plan: draw_plan(seed, e, prop, thorough), expect: v.clone(), schedule_hash: h };
        let min = minimise(&rep, if thorough { 300 } else { 45 });
        let dir = std::env::var("VERIF_REPLAY_DIR").unwrap_or("/verif/replays".into());
        let _ = std::fs::create_dir_all(&dir);
        let fh = crate::rng::fnv(serde_json::to_string(&min.plan).unwrap().as_bytes());
        let path = format!("{dir}/{}-sched-{}-{:08x}.json", min.expect.prop, seed, fh as u32);
        std::fs::write(&path, serde_json::to_string_pretty(&min).unwrap()).unwrap();
        let again = run_plan(&min.plan);
        let ok = again.viols.first().is_some_and(|v2| same_class(v2, &min.expect)) && again.hash == min.schedule_hash;
        println!("violation: exec={e} property={} tag={} detail={}", min.expect.prop, min.expect.tag, min.expect.detail);
        if ok {
            println!("VIOLATION property={} replay={}", min.expect.prop, path);
            code = 1;
        } else {
            println!("HARNESS-ERROR: replay did not reproduce exactly ({path})");
            code = 2;
        }
    }
    let wall = start.elapsed().as_secs_f64();
    let ev = json!({
        "property_id": prop,
        "tier": tier,
        "seed": seed,
        "level": "exploration",
        "wall_s": wall,
        "violations": violations,
        "coverage": {
            "evaluations": a.execs,
            "distinct_nontrivial": distinct,
            "rule": "one evaluation = one execution of a scenario plan under one scheduler plan, both drawn from hash(seed, execution index); non-trivial = at least one context switch between client tasks; distinct = number of distinct hashes of the sequence of task ids chosen at every scheduling point (distinct interleavings)",
            "samples": samples.into_inner().unwrap(),
            "executions_per_hour": if wall > 0.0 { (a.execs as f64 / wall * 3600.0) as u64 } else { 0 },
            "simulated_time_steps": {"scheduling_points": a.steps, "context_switches": a.switches},
            "stalls_fired": a.stalls_fired,
            "by_scheduler": a.by_sched,
            "by_scenario": a.by_scenario,
            "commits": a.commits,
            "reader_snapshots": a.reads,
            "snapshot_rechecks": a.rechecks,
            "ownership_audits": a.audits,
            "components": {"real": ["redb (copy of /repo/src rebuilt at check time, src/sync.rs replaced by shuttle primitives)"], "stub": ["StorageBackend -> SimDisk", "std::sync -> shuttle::sync (scheduler-controlled)"], "harness": ["scenario generator", "stall / random / PCT schedulers", "history checker", "independent decoder for the ownership audit"]},
        },
        "assumptions": [
            "sequentially consistent scheduling: lock-level preemption plus the named pause points; weak-memory reorderings are out of reach",
            "changes confined to src/sync.rs are not seen by this engine (that file is replaced)",
            "sampling of schedules, not enumeration"
        ]
    });
    let evdir = std::env::var("VERIF_EVIDENCE_DIR").unwrap_or("/verif/evidence".into());
    let _ = std::fs::create_dir_all(&evdir);
    std::fs::write(format!("{evdir}/{prop}.json"), serde_json::to_string_pretty(&ev).unwrap()).unwrap();
    println!("{prop}: executions={} distinct_interleavings={distinct} stalls_fired={} wall={wall:.1}s exit={code}", a.execs, a.stalls_fired);
    code
}
