#!/bin/bash
# usage: confirm_mutant.sh <dir with patch.diff and demo.rs> <name e.g. C01_1>
# env: DEMO_FEATURES="--features experimental_cursor" for demonstrations of feature-gated code;
# a cargo_toml_dev_dependency.diff in the directory is applied for the demonstration only (C19: redb 3.0.0)
# Confirms in a scratch worktree (outside /repo and /verif) that a seeded change (a) leaves the
# existing suite green, (b) makes its demonstration fail, (c) the demonstration passes without it.
d="$1"; name="$2"
wt=/tmp/confirm/wt
mkdir -p /tmp/confirm
if [ ! -d $wt ]; then git -C /repo worktree add -f $wt HEAD >/dev/null 2>&1 || exit 2; fi
cd $wt || exit 2
git checkout -q -- . ; git clean -fdq tests src >/dev/null 2>&1
git reset -q --hard $(git -C /repo rev-parse HEAD)
if ! git apply --check "$d/patch.diff" 2>/dev/null; then echo "$name: PATCH-DOES-NOT-APPLY"; exit 3; fi
git apply "$d/patch.diff"
suite=$(cargo nextest run --workspace --no-fail-fast --test-threads 8 --offline 2>&1 | grep -E "tests run:" | tail -1)
cp "$d/demo.rs" tests/seeded_$name.rs
if [ -f "$d/cargo_toml_dev_dependency.diff" ]; then git apply "$d/cargo_toml_dev_dependency.diff" || echo "$name: dev-dependency diff does not apply"; fi
with=$(timeout 1800 cargo test --offline -p redb@4.2.0 $DEMO_FEATURES --test seeded_$name 2>&1 | grep -E "^test result|error(\[|:)" | tail -2 | tr '\n' ' ')
git checkout -q -- src
without=$(timeout 1800 cargo test --offline -p redb@4.2.0 $DEMO_FEATURES --test seeded_$name 2>&1 | grep -E "^test result|error(\[|:)" | tail -2 | tr '\n' ' ')
rm -f tests/seeded_$name.rs; git checkout -q -- Cargo.toml Cargo.lock 2>/dev/null
echo "$name | suite-with-change: $suite | demo-with-change: $with | demo-without: $without"
