#!/bin/bash
# usage: try_mutant.sh <patch.diff> <prop> [<prop>...]
# Applies a seeded change to /repo, runs the given quick checks with evidence/replays redirected
# to a scratch directory, and ALWAYS restores /repo afterwards.
set -u
patch="$1"; shift
out=$(mktemp -d /tmp/mutrun.XXXXXX)
cd /repo || exit 2
if ! git diff --quiet; then echo "refusing: /repo has uncommitted changes"; exit 2; fi
if ! git apply --check "$patch" 2>/dev/null; then echo "PATCH DOES NOT APPLY: $patch"; exit 3; fi
git apply "$patch"
trap 'cd /repo && git checkout -- . ' EXIT
cd /verif
for p in "$@"; do
  start=$(date +%s)
  VERIF_EVIDENCE_DIR=$out/ev VERIF_REPLAY_DIR=$out/rp ./check "$p" > $out/$p.log 2>&1
  rc=$?
  end=$(date +%s)
  echo "check $p -> exit $rc ($((end-start))s) $(grep -m1 '^violation' $out/$p.log | cut -c1-300)"
done
echo "logs: $out"
