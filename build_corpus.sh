#!/bin/bash
# usage: build_corpus.sh <pairs file: lines "<seeded id> <check>">
# For each pair: applies the seeded change to /repo, runs the check (corpus stage disabled), keeps
# the minimised replay file the check wrote as corpus/<check>/<id>.json, restores /repo. Afterwards
# every new corpus file is replayed on the restored tree and must pass (else it is removed and
# listed). /repo must be clean; nothing else may build from /repo meanwhile.
set -u
cd /repo || exit 2
if ! git diff --quiet; then echo "refusing: /repo has uncommitted changes"; exit 2; fi
while read -r id chk; do
  [ -z "$id" ] && continue
  out=$(mktemp -d /tmp/corpusrun.XXXXXX)
  if [ -f /verif/corpus/$chk/$id.json ]; then echo "$id $chk: already there"; continue; fi
  git -C /repo apply /verif/seeded/$id/patch.diff || { echo "$id: patch does not apply"; continue; }
  ( cd /verif && VERIF_NO_CORPUS=1 VERIF_EVIDENCE_DIR=$out/ev VERIF_REPLAY_DIR=$out/rp ./check $chk > $out/log 2>&1 )
  rc=$?
  git -C /repo checkout -- .
  f=$(grep -m1 '^VIOLATION' $out/log | sed 's/.*replay=//')
  if [ "$rc" = 1 ] && [ -n "$f" ] && [ -f "$f" ]; then
    mkdir -p /verif/corpus/$chk; cp "$f" /verif/corpus/$chk/$id.json; echo "$id $chk: kept $(basename $f)"
  else
    echo "$id $chk: exit $rc, no replay kept"
  fi
  rm -rf $out
done < "$1"
