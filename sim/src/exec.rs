//! The executor: runs a plan against the real redb on a SimDisk and against the reference model,
//! checking every result. Single-threaded; the only nondeterminism is the plan.

use crate::disk::{CrashChoice, CrashWalker, Marker, Op as DOp, SimDisk};
use crate::model::{DbState, PSp, Tables};
use crate::obs::{diff, expected_obs, observe_read, observe_write, Obs};
use crate::plan::{table_name, Bd, Cfg, KeyVal, Plan, ROp, Step};
use crate::tabs::{open_r, DynGuard, DynIter, RHandle};
use crate::types::OV;
use redb::{Database, DatabaseError, ReadTransaction, ReadableDatabase, Savepoint};
use std::collections::{BTreeMap, BTreeSet, VecDeque};
use std::panic::{catch_unwind, AssertUnwindSafe};
use std::sync::Arc;

#[derive(Clone, Debug, serde::Serialize, serde::Deserialize, PartialEq)]
pub struct Viol {
    pub prop: String,
    pub tag: String,
    pub detail: String,
}

#[derive(Clone, Copy, PartialEq, Eq, Debug)]
pub enum Mode {
    /// fault-free: every unexpected Err is a violation
    Strict,
    /// faults armed: an Err means "did not happen"
    Faulty,
}

/// One process lifetime of the database on one SimDisk: what the crash explorer consumes.
pub struct Lifetime {
    pub base: Vec<u8>,
    pub log: Vec<DOp>,
    /// versions admissible as recovery result at the start of this lifetime
    pub allowed_at_start: BTreeSet<usize>,
    /// whether creation of a brand-new file happened in this lifetime
    pub created: bool,
}

#[derive(Default, Clone, Debug, serde::Serialize, serde::Deserialize)]
pub struct ExecStats {
    pub api_calls: u64,
    pub txns: u64,
    pub commits: u64,
    pub nondurable_commits: u64,
    pub two_phase: u64,
    pub quick_repair: u64,
    pub aborts: u64,
    pub poisoned_commits: u64,
    pub reader_checks: u64,
    pub iter_advances: u64,
    pub guard_rechecks: u64,
    pub sp_created: u64,
    pub sp_restored: u64,
    pub reopens: u64,
    pub crashes: u64,
    pub compactions: u64,
    pub compactions_moved: u64,
    pub integrity_checks: u64,
    pub audits: u64,
    pub max_height: u32,
    pub multi_region: u64,
    pub io_errors_reported: u64,
    pub refused_after_error: u64,
    pub steps_skipped: u64,
    pub deep_checks: u64,
    pub syncs_decoded: u64,
    pub pages_protected: u64,
    pub secondary_selected_at_sync: u64,
    pub decoder_max_depth: u32,
    pub multimap_subtrees_seen: u64,
    pub ownership_audits: u64,
    /// reach probes: how often an operation outcome class was actually met (a probe stuck at
    /// zero means the workload does not get there)
    #[serde(default)]
    pub probes: BTreeMap<String, u64>,
}

pub struct HeldIter {
    pub it: DynIter,
    pub expect: VecDeque<(KeyVal, OV)>,
}

pub struct HeldGuard {
    pub g: DynGuard,
    pub expect: OV,
}

pub struct Reader {
    pub txn: Option<ReadTransaction>,
    pub v: usize,
    pub tables: Vec<(String, RHandle)>,
    pub iters: Vec<HeldIter>,
    pub guards: Vec<HeldGuard>,
    /// pages reachable from this reader's root at begin_read(), with their byte hashes
    pub pins: Option<crate::deep::Pins>,
}

impl Reader {
    /// does this reader still hold anything that pins its snapshot?
    pub fn alive(&self) -> bool {
        self.txn.is_some() || !self.tables.is_empty() || !self.iters.is_empty() || !self.guards.is_empty()
    }
}

pub struct Eph {
    pub sp: Savepoint,
    pub seq: u64,
    pub snap: Arc<Tables>,
    pub valid: bool,
    pub pins: Option<crate::deep::Pins>,
}

pub struct Exec {
    pub cfg: Cfg,
    pub mode: Mode,
    pub disk: SimDisk,
    pub db: Option<Database>,
    pub versions: Vec<Arc<DbState>>,
    pub cur: usize,
    pub allowed: BTreeSet<usize>,
    pub readers: Vec<Reader>,
    pub eph: Vec<Eph>,
    pub sp_seq: u64,
    pub viols: Vec<Viol>,
    pub stats: ExecStats,
    pub lifetimes: Vec<Lifetime>,
    pub cur_life_base: Vec<u8>,
    pub cur_life_allowed: BTreeSet<usize>,
    pub cur_life_created: bool,
    pub io_error_seen: bool,
    pub abort_baseline: Option<u64>,
    pub keep_lifetimes: bool,
    pub cache: u64,
    pub disk_stats: crate::disk::Stats,
    pub oplog_hash: u64,
    pub dead_end: bool,
    pub known: Vec<String>,
    /// faults to arm right after the database has been created (C08); Some(vec![]) only counts calls
    pub fault_plan: Option<Vec<crate::disk::Fault>>,
    pub calls_counted: u64,
    pub hook: Option<Arc<std::sync::Mutex<crate::deep::HookShared>>>,
    pub prop_under_check: String,
    /// a caught application panic leaked pages in memory; cleared by the next open
    pub panic_leak: bool,
}

thread_local! {
    /// known findings met by any executor on this thread during the current run
    pub static KNOWN_SEEN: std::cell::RefCell<Vec<String>> = const { std::cell::RefCell::new(Vec::new()) };
    /// the property whose check is running (set by the runner per worker thread)
    pub static PROP_UNDER_CHECK: std::cell::RefCell<String> = std::cell::RefCell::new("C08".to_string());
}

pub fn is_io_error_str(s: &str) -> bool {
    s.contains("simdisk") || s.contains("injected") || s.contains("Previous I/O") || s.contains("PreviousIo")
}

impl Exec {
    pub fn new(cfg: Cfg, mode: Mode) -> Self {
        let cache = cfg.cache;
        let mut e = Self::new_inner(cfg, mode, cache);
        if e.cfg.deep_oracles {
            e.hook = Some(Arc::new(std::sync::Mutex::new(crate::deep::HookShared::default())));
        }
        e
    }

    fn new_inner(cfg: Cfg, mode: Mode, cache: u64) -> Self {
        Exec {
            cfg,
            mode,
            disk: SimDisk::new(vec![]),
            db: None,
            versions: vec![Arc::new(DbState::default())],
            cur: 0,
            allowed: [0usize].into_iter().collect(),
            readers: vec![],
            eph: vec![],
            sp_seq: 0,
            viols: vec![],
            stats: ExecStats::default(),
            lifetimes: vec![],
            cur_life_base: vec![],
            cur_life_allowed: BTreeSet::new(),
            cur_life_created: false,
            io_error_seen: false,
            abort_baseline: None,
            keep_lifetimes: false,
            cache,
            disk_stats: Default::default(),
            oplog_hash: 0,
            dead_end: false,
            known: vec![],
            fault_plan: None,
            calls_counted: 0,
            hook: None,
            prop_under_check: PROP_UNDER_CHECK.with(|p| p.borrow().clone()),
            panic_leak: false,
        }
    }

    pub fn viol(&mut self, prop: &str, tag: &str, detail: String) {
        let v = Viol { prop: prop.into(), tag: tag.into(), detail };
        // a listed known finding is noted and the run goes on, so that it cannot hide anything
        // else that the rest of the run would have shown
        if let Some(k) = crate::runner::known_finding(&v) {
            let line = format!("KNOWN-FINDING: property={} {}", v.prop, k);
            KNOWN_SEEN.with(|s| {
                let mut s = s.borrow_mut();
                if s.len() < 20 && !s.contains(&line) {
                    s.push(line.clone());
                }
            });
            if self.known.len() < 20 {
                self.known.push(line);
            }
            return;
        }
        if self.viols.len() < 20 {
            self.viols.push(v);
        }
    }

    /// A panic that escaped a redb API call. With faults armed that is C08's "neither panics";
    /// on a fault-free run it is charged to the property under check (a broken invariant tripping
    /// one of redb's own assertions), with the panic message.
    pub fn panic_viol(&mut self, what: &str) {
        let prop = if self.mode == Mode::Faulty { "C08".to_string() } else { self.prop_under_check.clone() };
        let msg = crate::runner::last_panic();
        self.viol(&prop, "panic", format!("{what}: {msg}"));
    }

    pub fn probe(&mut self, name: &str) {
        *self.stats.probes.entry(name.to_string()).or_insert(0) += 1;
    }

    pub fn state(&self) -> &Arc<DbState> {
        &self.versions[self.cur]
    }

    pub fn builder(&self, cache: u64) -> redb::Builder {
        // thread-local: every simulated run lives on one worker thread from open to close
        redb::verif_knobs::set_freed_pages_chunk_size(self.cfg.freed_chunk as usize);
        let mut b = Database::builder();
        b.verif_set_page_size(self.cfg.page_size as usize);
        if let Some(rp) = self.cfg.region_pages {
            b.verif_set_region_size(rp as u64 * self.cfg.page_size as u64);
        }
        b.set_cache_size(cache as usize);
        b
    }

    /// Open (or create) the database on a fresh SimDisk holding `image`.
    pub fn open_image(&mut self, image: Vec<u8>, cache: u64) -> Result<(), DatabaseError> {
        let created = image.is_empty();
        self.cur_life_base = image.clone();
        self.cur_life_allowed = self.allowed.clone();
        self.cur_life_created = created;
        self.disk = SimDisk::new(image);
        self.disk.st().record = self.keep_lifetimes;
        self.cache = cache;
        self.io_error_seen = false;
        self.abort_baseline = None;
        self.panic_leak = false;
        self.disk.marker(Marker::OpenBegin);
        self.stats.api_calls += 1;
        if let Some(h) = self.hook.clone() {
            // creation of a brand-new file is outside the properties' quantifier
            h.lock().unwrap().active = !created;
            self.push_hook_state();
            self.disk.set_sync_hook(Some(crate::deep::make_hook(h)));
        }
        let r = self.builder(cache).create_with_backend(self.disk.clone());
        let r = match r {
            Ok(db) => {
                self.disk.marker(Marker::OpenEnd);
                self.db = Some(db);
                Ok(())
            }
            Err(e) => Err(e),
        };
        if let Some(h) = self.hook.clone() {
            h.lock().unwrap().active = true;
        }
        self.collect_hook();
        r
    }

    /// Fold the finished disk's log and stats into the run (end of one process lifetime).
    pub fn end_lifetime(&mut self) {
        let mut s = self.disk.st();
        for (i, c) in s.stats.calls.iter().enumerate() {
            self.disk_stats.calls[i] += c;
        }
        for (i, c) in s.stats.faults_fired.iter().enumerate() {
            self.disk_stats.faults_fired[i] += c;
        }
        self.disk_stats.partial_writes += s.stats.partial_writes;
        self.disk_stats.bytes_written += s.stats.bytes_written;
        self.disk_stats.max_len = self.disk_stats.max_len.max(s.stats.max_len);
        self.disk_stats.shrinks += s.stats.shrinks;
        self.disk_stats.grows += s.stats.grows;
        self.oplog_hash = crate::rng::mix(self.oplog_hash, s.hash.0);
        self.calls_counted += s.call_index;
        let contract = std::mem::take(&mut s.contract);
        let monitor = std::mem::take(&mut s.monitor);
        let dead = s.dead;
        let close_count = s.close_count;
        let log = std::mem::take(&mut s.log);
        drop(s);
        for c in contract {
            self.viol("C20", "contract", c);
        }
        for m in monitor {
            self.viol("C06", "write-monitor", m);
        }
        if !dead && close_count != 1 {
            self.viol("C20", "close-count", format!("close() called {close_count} times for one backend"));
        }
        self.collect_hook();
        if let Some(h) = self.hook.clone() {
            let mut sh = h.lock().unwrap();
            self.stats.syncs_decoded += std::mem::take(&mut sh.syncs_checked);
            self.stats.pages_protected += std::mem::take(&mut sh.protected_pages);
            self.stats.secondary_selected_at_sync += std::mem::take(&mut sh.secondary_selected);
            self.stats.decoder_max_depth = self.stats.decoder_max_depth.max(sh.max_depth);
            self.stats.multimap_subtrees_seen += std::mem::take(&mut sh.subtrees);
        }
        if self.keep_lifetimes {
            self.lifetimes.push(Lifetime {
                base: std::mem::take(&mut self.cur_life_base),
                log,
                allowed_at_start: self.cur_life_allowed.clone(),
                created: self.cur_life_created,
            });
        }
    }

    /// publish the admissible versions (and their expected decoded form) to the sync hook
    pub fn push_hook_state(&mut self) {
        let Some(h) = self.hook.clone() else { return };
        let mut sh = h.lock().unwrap();
        sh.allowed = self.allowed.clone();
        let allowed = self.allowed.clone();
        sh.expected.retain(|v, _| allowed.contains(v));
        for v in allowed {
            if !sh.expected.contains_key(&v) {
                let st = &self.versions[v];
                sh.expected.insert(v, (Arc::new(crate::deep::expected_dump(st)), st.psp.keys().copied().collect()));
            }
        }
    }

    /// move what the sync hook and the disk monitors found into the run's violations
    pub fn collect_hook(&mut self) {
        if let Some(h) = self.hook.clone() {
            let v: Vec<(String, String, String)> = std::mem::take(&mut h.lock().unwrap().viols);
            if self.mode == Mode::Strict {
                for (p, t, d) in v {
                    self.viol(&p, &t, d);
                }
            }
        }
        let (contract, monitor) = {
            let mut s = self.disk.st();
            (std::mem::take(&mut s.contract), std::mem::take(&mut s.monitor))
        };
        for c in contract {
            self.viol("C20", "contract", c);
        }
        if self.mode == Mode::Strict {
            for m in monitor {
                self.viol("C06", "write-monitor", m);
            }
        }
    }

    pub fn drop_handles(&mut self) {
        self.readers.clear();
        self.eph.clear();
    }

    /// Clean close: drop every handle, then the database. Acknowledges the last commit durably.
    pub fn close_clean(&mut self) {
        self.drop_handles();
        if let Some(db) = self.db.take() {
            self.disk.marker(Marker::CloseBegin);
            let r = catch_unwind(AssertUnwindSafe(|| drop(db)));
            if r.is_err() {
                self.panic_viol("panic while dropping the Database");
            }
            if !self.io_error_seen && self.mode == Mode::Strict {
                self.disk.marker(Marker::CloseEnd);
                let cur = self.cur;
                self.allowed.retain(|x| *x >= cur);
            }
        }
        self.end_lifetime();
    }

    /// Power loss now: nothing further reaches the medium; returns the chosen crash image.
    pub fn crash_now(&mut self, choice: &CrashChoice) -> Vec<u8> {
        let (image, _info) = {
            let mut s = self.disk.st();
            s.dead = true;
            let log_len = s.log.len();
            // build from durable + pending using the walker over the recorded log when available,
            // otherwise directly from the pending list
            if s.record {
                let log = std::mem::take(&mut s.log);
                let mut w = CrashWalker::new(self.cur_life_base.clone(), &log);
                w.advance_to(log_len);
                let r = w.image(choice);
                s.log = log;
                r
            } else {
                // not recording: only "all kept" (live) and "none kept" (durable) are available
                match choice {
                    CrashChoice::NoneKept => (s.durable.clone(), Default::default()),
                    _ => (s.live.clone(), Default::default()),
                }
            }
        };
        self.drop_handles();
        if let Some(db) = self.db.take() {
            let _ = catch_unwind(AssertUnwindSafe(|| drop(db)));
        }
        self.end_lifetime();
        self.stats.crashes += 1;
        image
    }

    /// After recovery: find which admissible version the database holds and resynchronise.
    pub fn resync_after_recovery(&mut self, prop: &str) -> bool {
        let Some(db) = self.db.as_ref() else { return false };
        let obs = match db.begin_read().map_err(|e| e.to_string()).and_then(|t| observe_read(&t)) {
            Ok(o) => o,
            Err(e) => {
                self.viol(prop, "recovery-read", format!("cannot read recovered database: {e}"));
                return false;
            }
        };
        let psp = self.observe_psp_ids();
        let mut found = None;
        for &v in self.allowed.iter().rev() {
            let st = &self.versions[v];
            if expected_obs(&st.tables) == obs {
                match &psp {
                    Ok(ids) => {
                        let exp: Vec<u64> = st.psp.keys().copied().collect();
                        if *ids == exp {
                            found = Some(v);
                            break;
                        }
                    }
                    Err(_) => {
                        found = Some(v);
                        break;
                    }
                }
            }
        }
        match found {
            Some(v) => {
                let st = self.versions[v].clone();
                self.allowed.retain(|x| *x <= v);
                self.versions.push(st);
                self.cur = self.versions.len() - 1;
                self.allowed.insert(self.cur);
                self.disk.marker(Marker::Resynced { landed: v as u32, new: self.cur as u32 });
                self.push_hook_state();
                true
            }
            None => {
                let newest = *self.allowed.iter().next_back().unwrap();
                let d = diff(&expected_obs(&self.versions[newest].tables), &obs);
                self.viol(
                    prop,
                    "recovered-state",
                    format!(
                        "recovered contents equal none of the admissible versions {:?}; vs newest: {d}; savepoints seen {:?}",
                        self.allowed, psp
                    ),
                );
                false
            }
        }
    }

    pub fn observe_psp_ids(&mut self) -> Result<Vec<u64>, String> {
        let Some(db) = self.db.as_ref() else { return Err("closed".into()) };
        let txn = db.begin_write().map_err(|e| e.to_string())?;
        let ids: Vec<u64> = txn.list_persistent_savepoints().map_err(|e| e.to_string())?.collect();
        txn.abort().map_err(|e| e.to_string())?;
        Ok(ids)
    }

    // -----------------------------------------------------------------------------------------
    // readers

    pub fn reader_op(&mut self, op: &ROp) {
        match op {
            ROp::Begin => {
                if self.readers.len() >= 6 {
                    return;
                }
                let Some(db) = self.db.as_ref() else { return };
                self.stats.api_calls += 1;
                match db.begin_read() {
                    Ok(txn) => {
                        let v = self.cur;
                        let pins = if self.cfg.deep_oracles && self.mode == Mode::Strict { crate::deep::take_pins(db) } else { None };
                        self.readers.push(Reader { txn: Some(txn), v, tables: vec![], iters: vec![], guards: vec![], pins });
                    }
                    Err(e) => self.api_err("C02", "begin_read", &e.to_string()),
                }
            }
            ROp::Check { idx } => {
                if self.readers.is_empty() {
                    return;
                }
                let i = *idx as usize % self.readers.len();
                self.check_reader(i);
            }
            ROp::TakeIter { idx, t, lo, hi, owned } => {
                if self.readers.is_empty() {
                    return;
                }
                let i = *idx as usize % self.readers.len();
                self.take_iter(i, *t, lo, hi, *owned);
            }
            ROp::TakeGuard { idx, t, k, owned } => {
                if self.readers.is_empty() {
                    return;
                }
                let i = *idx as usize % self.readers.len();
                self.take_guard(i, *t, k, *owned);
            }
            ROp::Advance { idx, it, n, pattern } => {
                if self.readers.is_empty() {
                    return;
                }
                let i = *idx as usize % self.readers.len();
                self.advance(i, *it, *n, *pattern);
            }
            ROp::Recheck { idx } => {
                if self.readers.is_empty() {
                    return;
                }
                let i = *idx as usize % self.readers.len();
                let mut bad = vec![];
                for (gi, g) in self.readers[i].guards.iter().enumerate() {
                    self.stats.guard_rechecks += 1;
                    if (g.g)() != g.expect {
                        bad.push(gi);
                    }
                }
                for gi in bad {
                    let v = self.readers[i].v;
                    self.viol("C02", "guard-changed", format!("held guard #{gi} of reader at version {v} changed its bytes"));
                }
            }
            ROp::DropHandle { idx } => {
                if self.readers.is_empty() {
                    return;
                }
                let i = *idx as usize % self.readers.len();
                // open every table first so that they outlive the handle
                self.ensure_tables_open(i);
                self.readers[i].txn = None;
            }
            ROp::Drop { idx } => {
                if self.readers.is_empty() {
                    return;
                }
                let i = *idx as usize % self.readers.len();
                self.readers.remove(i);
            }
        }
    }

    pub fn api_err(&mut self, prop: &str, what: &str, e: &str) {
        if self.mode == Mode::Strict {
            self.viol(prop, "unexpected-error", format!("{what} failed on a fault-free run: {e}"));
        } else {
            self.note_error(e);
        }
    }

    pub fn note_error(&mut self, _e: &str) {
        self.stats.io_errors_reported += 1;
        self.io_error_seen = true;
    }

    fn ensure_tables_open(&mut self, i: usize) {
        let v = self.readers[i].v;
        let st = self.versions[v].clone();
        let Some(txn) = self.readers[i].txn.as_ref() else { return };
        let mut opened = vec![];
        for (name, t) in st.tables.iter() {
            if self.readers[i].tables.iter().any(|(n, _)| n == name) {
                continue;
            }
            match open_r(txn, name, t.kind()) {
                Ok(h) => opened.push((name.clone(), h)),
                Err(e) => {
                    let e = e.to_string();
                    self.api_err("C02", &format!("reader open {name}"), &e);
                    return;
                }
            }
        }
        self.readers[i].tables.extend(opened);
    }

    fn check_reader(&mut self, i: usize) {
        self.stats.reader_checks += 1;
        let v = self.readers[i].v;
        let st = self.versions[v].clone();
        let exp = expected_obs(&st.tables);
        if let Some(txn) = self.readers[i].txn.as_ref() {
            self.stats.api_calls += 1;
            match observe_read(txn) {
                Ok(obs) => {
                    if obs != exp {
                        let d = diff(&exp, &obs);
                        self.viol("C02", "snapshot-changed", format!("reader begun at version {v} (current {}) no longer sees its snapshot: {d}", self.cur));
                    }
                }
                Err(e) => self.api_err("C02", "reader observe", &e),
            }
        }
        // tables held open (possibly beyond the handle)
        let mut problems = vec![];
        let mut errs = vec![];
        for (name, h) in self.readers[i].tables.iter() {
            let Some(e) = exp.get(name) else { continue };
            match (h, e) {
                (RHandle::T(t), crate::obs::ObsTable::T(_, rows)) => {
                    match (t.dump(), t.dump_rev(), t.len(), t.first(), t.last()) {
                        (Ok(f), Ok(mut r), Ok(n), Ok(first), Ok(last)) => {
                            r.reverse();
                            if &f != rows || &r != rows || n != rows.len() as u64 || first.as_ref() != rows.first() || last.as_ref() != rows.last() {
                                problems.push(name.clone());
                            }
                        }
                        (a, b, c, d, e2) => {
                            let msg = [a.err().map(|x| x.to_string()), b.err().map(|x| x.to_string()), c.err().map(|x| x.to_string()), d.err().map(|x| x.to_string()), e2.err().map(|x| x.to_string())]
                                .into_iter().flatten().next().unwrap_or_default();
                            errs.push(msg);
                        }
                    }
                }
                (RHandle::M(t), crate::obs::ObsTable::M(_, rows)) => match (t.dump(), t.dump_rev(), t.len()) {
                    (Ok(f), Ok(mut r), Ok(n)) => {
                        r.reverse();
                        let pairs: u64 = rows.iter().map(|(_, v)| v.len() as u64).sum();
                        if &f != rows || &r != rows || n != pairs {
                            problems.push(name.clone());
                        }
                    }
                    (a, b, c) => {
                        let msg = [a.err().map(|x| x.to_string()), b.err().map(|x| x.to_string()), c.err().map(|x| x.to_string())]
                            .into_iter().flatten().next().unwrap_or_default();
                        errs.push(msg);
                    }
                },
                _ => problems.push(name.clone()),
            }
        }
        for p in problems {
            self.viol("C02", "held-table-changed", format!("table {p} held by reader at version {v} (current {}) changed", self.cur));
        }
        for e in errs {
            self.api_err("C02", "held table read", &e);
        }
    }

    fn take_iter(&mut self, i: usize, t: u8, lo: &Bd, hi: &Bd, owned: bool) {
        if self.readers[i].iters.len() >= 4 {
            return;
        }
        self.ensure_tables_open(i);
        let v = self.readers[i].v;
        let st = self.versions[v].clone();
        let names: Vec<&String> = st.tables.iter().filter(|(_, t)| !t.kind().is_multimap()).map(|(n, _)| n).collect();
        if names.is_empty() {
            return;
        }
        let name = names[t as usize % names.len()].clone();
        let ts = st.tables[&name].clone();
        let kt = ts.kind().key_type();
        let (Some(lo), Some(hi)) = (coerce_bd(lo, kt), coerce_bd(hi, kt)) else { return };
        let rows = crate::model::range_of(ts.map(), &lo, &hi);
        if !bounds_ok(&lo, &hi) {
            return;
        }
        let expect: VecDeque<(KeyVal, OV)> = rows
            .into_iter()
            .map(|(k, val)| (k, crate::types::expect_ov(val, ts.kind().val_is_bytes())))
            .collect();
        let Some((_, RHandle::T(h))) = self.readers[i].tables.iter().find(|(n, _)| *n == name) else { return };
        self.stats.api_calls += 1;
        match h.iter(&lo, &hi, owned) {
            Ok(it) => self.readers[i].iters.push(HeldIter { it, expect }),
            Err(e) => {
                let e = e.to_string();
                self.api_err("C02", "reader range", &e)
            }
        }
    }

    fn take_guard(&mut self, i: usize, t: u8, k: &KeyVal, owned: bool) {
        if self.readers[i].guards.len() >= 6 {
            return;
        }
        self.ensure_tables_open(i);
        let v = self.readers[i].v;
        let st = self.versions[v].clone();
        let names: Vec<&String> = st.tables.iter().filter(|(_, t)| !t.kind().is_multimap()).map(|(n, _)| n).collect();
        if names.is_empty() {
            return;
        }
        let name = names[t as usize % names.len()].clone();
        let ts = st.tables[&name].clone();
        // pick an existing key near k when possible so that guards are actually obtained
        let Some(k) = coerce_key(k, ts.kind().key_type()) else { return };
        let key = ts.map().range(k.clone()..).next().map(|(k, _)| k.clone()).or_else(|| ts.map().keys().next().cloned());
        let Some(key) = key else { return };
        let exp = crate::types::expect_ov(ts.map()[&key], ts.kind().val_is_bytes());
        let Some((_, RHandle::T(h))) = self.readers[i].tables.iter().find(|(n, _)| *n == name) else { return };
        self.stats.api_calls += 1;
        match h.guard(&key, owned) {
            Ok(Some(g)) => {
                if g() != exp {
                    self.viol("C02", "guard-wrong", format!("guard for {key:?} in {name} at version {v} has wrong bytes"));
                }
                self.readers[i].guards.push(HeldGuard { g, expect: exp });
            }
            Ok(None) => self.viol("C02", "guard-missing", format!("key {key:?} missing from {name} at version {v}")),
            Err(e) => {
                let e = e.to_string();
                self.api_err("C02", "reader get", &e)
            }
        }
    }

    fn advance(&mut self, i: usize, it: u32, n: u32, pattern: u32) {
        if self.readers[i].iters.is_empty() {
            return;
        }
        let j = it as usize % self.readers[i].iters.len();
        let v = self.readers[i].v;
        let mut problem = None;
        let mut err = None;
        {
            let h = &mut self.readers[i].iters[j];
            for s in 0..n {
                self.stats.iter_advances += 1;
                let back = (pattern >> (s % 32)) & 1 == 1;
                let got = if back { h.it.next_back() } else { h.it.next() };
                let exp = if back { h.expect.pop_back() } else { h.expect.pop_front() };
                match (got, exp) {
                    (None, None) => break,
                    (Some(Ok(g)), Some(e)) => {
                        if g != e {
                            problem = Some(format!("iterator of reader at version {v} yielded key {:?}, expected {:?}", g.0, e.0));
                            break;
                        }
                    }
                    (Some(Err(e)), _) => {
                        err = Some(e.to_string());
                        break;
                    }
                    (g, e) => {
                        problem = Some(format!(
                            "iterator of reader at version {v}: got {:?}, expected {:?}",
                            g.map(|x| x.map(|p| p.0).ok()),
                            e.map(|p| p.0)
                        ));
                        break;
                    }
                }
            }
        }
        if problem.is_some() || err.is_some() {
            self.readers[i].iters.remove(j);
        }
        if let Some(p) = problem {
            self.viol("C02", "iterator-changed", p);
        }
        if let Some(e) = err {
            self.api_err("C02", "iterator", &e);
        }
    }

    // -----------------------------------------------------------------------------------------
    // database-level steps

    pub fn audit(&mut self, prop: &str) {
        let Some(db) = self.db.as_ref() else { return };
        self.stats.audits += 1;
        self.stats.api_calls += 1;
        let r = db.begin_read().map_err(|e| e.to_string()).and_then(|t| observe_read(&t));
        match r {
            Ok(obs) => {
                let exp = expected_obs(&self.state().tables);
                if obs != exp {
                    let d = diff(&exp, &obs);
                    self.viol(prop, "contents", format!("latest contents differ from the model (version {}): {d}", self.cur));
                }
            }
            Err(e) => self.api_err(prop, "audit", &e),
        }
    }

    pub fn check_integrity(&mut self) {
        let Some(db) = self.db.as_mut() else { return };
        self.stats.integrity_checks += 1;
        self.stats.api_calls += 1;
        self.readers.retain(|r| r.alive());
        let blocked = !self.readers.is_empty() || !self.eph.is_empty();
        self.disk.marker(Marker::IntegrityBegin);
        let (header_layout, file_len, stale_layout) = {
            let s = self.disk.st();
            let g = |o: usize| u32::from_le_bytes(s.live[o..o + 4].try_into().unwrap()) as u64;
            let (ps, h, max, full, trailing) = (g(12), g(16), g(20), g(24), g(28));
            let stored_len = ps + full * (h + max) * ps + if trailing > 0 { (h + trailing) * ps } else { 0 };
            let fl = s.live.len() as u64;
            ((full, trailing, max), fl, stored_len != fl)
        };
        let r = catch_unwind(AssertUnwindSafe(|| db.check_integrity()));
        match r {
            Err(_) => self.viol("C11", "panic", format!("check_integrity panicked: {}", crate::runner::last_panic())),
            Ok(Ok(true)) => {
                if !self.readers.is_empty() {
                    // a reader still holds the database memory: the call must have been refused
                    self.viol("C11", "integrity-with-readers", "check_integrity ran while read transactions were alive".into());
                }
                self.disk.marker(Marker::IntegrityEnd);
                let cur = self.cur;
                self.allowed.retain(|x| *x >= cur);
                self.abort_baseline = None;
                self.audit("C11");
            }
            Ok(Ok(false)) if self.panic_leak => {
                // pages leaked by a caught application panic were reclaimed: "repaired" is the
                // documented answer here, and the contents must be untouched
                self.panic_leak = false;
                self.abort_baseline = None;
                self.audit("C11");
            }
            Ok(Ok(false)) => {
                if self.mode == Mode::Strict {
                    let why = if stale_layout {
                        format!("the on-disk header layout {header_layout:?} was stale relative to the file length {file_len} (file grown by a transaction that did not commit)")
                    } else {
                        format!("header layout {header_layout:?} consistent with file length {file_len}")
                    };
                    self.viol("C11", "integrity-false", format!("check_integrity() returned Ok(false) on a healthy database; {why}"));
                }
                self.abort_baseline = None;
            }
            Ok(Err(DatabaseError::TransactionInProgress)) => {
                if !blocked {
                    self.viol("C11", "integrity-refused", "check_integrity() reported TransactionInProgress with no reader or savepoint alive".into());
                }
            }
            Ok(Err(e)) => {
                let e = e.to_string();
                self.api_err("C11", "check_integrity", &e)
            }
        }
    }

    pub fn compact(&mut self) {
        let Some(db) = self.db.as_mut() else { return };
        self.stats.compactions += 1;
        self.stats.api_calls += 1;
        self.readers.retain(|r| r.alive());
        let has_psp = !self.versions[self.cur].psp.is_empty();
        let has_eph = !self.eph.is_empty();
        let has_readers = !self.readers.is_empty();
        let before_len = self.disk.live_len();
        let syncs_before = self.disk.st().syncs_ok;
        self.disk.marker(Marker::CompactBegin);
        let r = catch_unwind(AssertUnwindSafe(|| db.compact()));
        self.abort_baseline = None;
        match r {
            Err(_) => self.viol("C13", "panic", format!("compact() panicked: {}", crate::runner::last_panic())),
            Ok(Ok(moved)) => {
                self.disk.marker(Marker::CompactEnd);
                if has_psp || has_eph || has_readers {
                    self.viol("C13", "compact-not-refused", format!("compact() ran with persistent savepoints={has_psp} ephemeral={has_eph} readers={has_readers}"));
                }
                if moved {
                    self.stats.compactions_moved += 1;
                }
                let cur = self.cur;
                self.allowed.retain(|x| *x >= cur);
                let after_len = self.disk.live_len();
                if after_len > before_len {
                    let region = self.cfg.region_pages.map_or(u64::MAX, |rp| rp as u64 * self.cfg.page_size as u64);
                    let step = region.min(before_len.max(region.min(1 << 20)));
                    let class = if after_len - before_len <= step { "by at most one growth step" } else { "by more than one growth step" };
                    self.viol("C13", "compact-grew", format!("compact() made the file larger {class}: {before_len} -> {after_len}"));
                }
                let syncs = self.disk.st().syncs_ok - syncs_before;
                let pages = before_len / self.cfg.page_size as u64 + 16;
                if syncs > 64 + 8 * pages {
                    self.viol("C13", "compact-unbounded", format!("compact() needed {syncs} syncs for a {pages}-page file"));
                }
                self.audit("C13");
            }
            Ok(Err(e)) => {
                use redb::CompactionError as CE;
                // a transaction dropped by an unwinding panic skips its rollback by design, so a
                // savepoint it registered stays registered until the next open: refusals on that
                // account are not judged while such a leak is outstanding
                let expected = match &e {
                    CE::PersistentSavepointExists => has_psp || self.panic_leak,
                    CE::EphemeralSavepointExists => has_eph || self.panic_leak,
                    CE::TransactionInProgress => has_readers || has_eph || self.panic_leak,
                    _ => false,
                };
                if !expected {
                    let e = e.to_string();
                    self.api_err("C13", "compact", &e);
                } else {
                    let after_len = self.disk.live_len();
                    if after_len != before_len {
                        self.viol("C13", "refused-compact-effect", format!("refused compact() changed the file length {before_len} -> {after_len}"));
                    }
                }
            }
        }
    }

    pub fn reopen(&mut self, cache: u64) {
        if self.db.is_none() {
            return;
        }
        self.stats.reopens += 1;
        self.close_clean();
        let image = self.disk.st().live.clone();
        match self.open_image(image, cache) {
            Ok(()) => {
                // ephemeral savepoints do not survive; persistent ones must
                self.after_open_checks("C11", false);
            }
            Err(e) => {
                let e = e.to_string();
                self.api_err("C11", "reopen", &e);
                self.dead_end = true;
            }
        }
    }

    pub fn crash_and_recover(&mut self, choice: &CrashChoice) {
        if self.db.is_none() {
            return;
        }
        let image = self.crash_now(choice);
        match self.open_image(image, self.cache) {
            Ok(()) => {
                if self.resync_after_recovery("C01") {
                    self.after_open_checks("C11", true);
                } else {
                    self.dead_end = true;
                }
            }
            Err(e) => {
                self.viol("C01", "recovery-open", format!("opening the crash image failed: {e}"));
                self.dead_end = true;
            }
        }
    }

    /// Checks common to every open path: persistent savepoints listed, contents equal the model.
    pub fn after_open_checks(&mut self, prop: &str, _recovered: bool) {
        self.audit(prop);
        match self.observe_psp_ids() {
            Ok(ids) => {
                let exp: Vec<u64> = self.state().psp.keys().copied().collect();
                if ids != exp {
                    self.viol("C07", "psp-list", format!("persistent savepoints after open: {ids:?}, expected {exp:?}"));
                }
            }
            Err(e) => self.api_err("C07", "list_persistent_savepoints", &e),
        }
    }

    /// Restore each persistent savepoint in a throw-away transaction and compare with its snapshot.
    pub fn verify_psp_contents(&mut self) {
        let Some(db) = self.db.as_ref() else { return };
        let st = self.state().clone();
        let mut problems = vec![];
        for (id, psp) in st.psp.iter() {
            let r = (|| -> Result<Obs, String> {
                let mut txn = db.begin_write().map_err(|e| e.to_string())?;
                let sp = txn.get_persistent_savepoint(*id).map_err(|e| e.to_string())?;
                txn.restore_savepoint(&sp).map_err(|e| e.to_string())?;
                let o = observe_write(&txn)?;
                txn.abort().map_err(|e| e.to_string())?;
                Ok(o)
            })();
            match r {
                Ok(o) => {
                    let exp = expected_obs(&psp.snap);
                    if o != exp {
                        problems.push(("C07", format!("persistent savepoint {id} restores to wrong contents: {}", diff(&exp, &o))));
                    }
                }
                Err(e) => problems.push(("err", e)),
            }
        }
        for (p, d) in problems {
            if p == "err" {
                self.api_err("C07", "verify savepoint", &d);
            } else {
                self.viol(p, "psp-contents", d);
            }
        }
        self.abort_baseline = None;
    }

    pub fn run(&mut self, plan: &Plan) {
        if self.db.is_none() && self.lifetimes.is_empty() && !self.dead_end {
            if let Err(e) = self.open_image(vec![], plan.cfg.cache) {
                self.viol("C01", "create", format!("creating the database failed: {e}"));
                return;
            }
            if let Some(f) = self.fault_plan.clone() {
                if !f.is_empty() {
                    self.mode = Mode::Faulty;
                }
                self.disk.arm(f);
            }
        }
        for step in &plan.steps {
            if self.dead_end || !self.viols.is_empty() {
                self.stats.steps_skipped += 1;
                continue;
            }
            self.step(step);
        }
    }

    pub fn step(&mut self, step: &Step) {
        self.step_inner(step);
        self.push_hook_state();
        self.collect_hook();
        if matches!(step, Step::Txn(_) | Step::Reopen { .. } | Step::Crash { .. } | Step::Compact | Step::CheckIntegrity | Step::DropDbDuringTxn { .. } | Step::SpDropEphemeral { .. }) {
            self.ownership();
        }
    }

    /// C06: exact page ownership at a transaction boundary
    pub fn ownership(&mut self) {
        if !self.cfg.deep_oracles || self.mode != Mode::Strict || !self.viols.is_empty() {
            return;
        }
        let mut problems: Vec<(String, String)> = vec![];
        let mut audited = false;
        let mut pinned = false;
        if let Some(db) = self.db.as_ref() {
            let o = crate::deep::ownership_audit(db);
            if o.skipped {
                return;
            }
            audited = true;
            problems.extend(o.problems);
            // pages of live readers and savepoints are never freed or rewritten
            let (mem, _) = db.verif_snapshot();
            if let Some(alloc) = mem.allocated.as_ref() {
                pinned = true;
                for r in self.readers.iter().filter(|r| r.alive()) {
                    if let Some(p) = &r.pins
                        && let Some(e) = crate::deep::check_pins(db, p, alloc)
                    {
                        problems.push(("pin".into(), format!("reader begun at version {}: {e}", r.v)));
                    }
                }
                for e in self.eph.iter() {
                    if let Some(p) = &e.pins
                        && let Some(m) = crate::deep::check_pins(db, p, alloc)
                    {
                        problems.push(("pin".into(), format!("ephemeral savepoint #{}: {m}", e.seq)));
                    }
                }
            }
        }
        if audited {
            self.stats.ownership_audits += 1;
        }
        if pinned {
            self.stats.deep_checks += 1;
        }
        for (tag, d) in problems {
            self.viol("C06", &tag, d);
        }
    }

    fn step_inner(&mut self, step: &Step) {
        match step {
            Step::Txn(t) => self.run_txn(t, false),
            Step::DropDbDuringTxn { txn } => self.run_txn(txn, true),
            Step::Reader(r) => self.reader_op(r),
            Step::SpDropEphemeral { idx } => {
                if !self.eph.is_empty() {
                    let i = *idx as usize % self.eph.len();
                    self.eph.remove(i);
                }
            }
            // While pages leaked by a caught application panic are outstanding (until the next
            // open), check_integrity() and compact() are left out of the explored space: see
            // DESIGN.md §12 (observation O1) -- rebuilding the allocator in-process can trip over the
            // stale write-buffer entries of the leaked pages.
            Step::CheckIntegrity if self.panic_leak => self.stats.steps_skipped += 1,
            Step::Compact if self.panic_leak => self.stats.steps_skipped += 1,
            Step::CheckIntegrity => self.check_integrity(),
            Step::Compact => self.compact(),
            Step::Reopen { cache } => self.reopen(*cache),
            Step::Crash { choice } => self.crash_and_recover(choice),
            Step::ReadOnlyOpen => self.read_only_open(),
            Step::Audit => {
                self.audit("C04");
            }
            Step::FailingOpen { kind, arg } => self.failing_open(*kind, *arg),
            Step::ArmFaults { faults } => {
                self.disk.arm(faults.clone());
                self.mode = Mode::Faulty;
            }
        }
    }

    pub fn read_only_open(&mut self) {
        if self.db.is_none() {
            return;
        }
        // after a caught panic the close does not record a clean shutdown (by design), and a
        // read-only open of a file that needs repair is refused
        let needs_repair = self.panic_leak;
        self.close_clean();
        let image = self.disk.st().live.clone();
        // read-only lifetime on its own disk
        let ro = SimDisk::new(image.clone());
        ro.st().read_only = true;
        ro.st().record = false;
        self.stats.api_calls += 1;
        let r = catch_unwind(AssertUnwindSafe(|| {
            let db = self.builder(self.cache).verif_open_read_only_with_backend(ro.clone())?;
            let obs = db.begin_read().map_err(|e| e.to_string()).and_then(|t| observe_read(&t));
            drop(db);
            Ok::<_, DatabaseError>(obs)
        }));
        match r {
            Err(_) => self.viol("C20", "read-only-panic", "read-only database panicked (a write path was reached?)".into()),
            Ok(Err(DatabaseError::RepairAborted)) if needs_repair => {}
            Ok(Err(e)) => {
                let e = e.to_string();
                self.api_err("C20", "read-only open", &e)
            }
            Ok(Ok(obs)) => match obs {
                Ok(o) => {
                    let exp = expected_obs(&self.state().tables);
                    if o != exp {
                        self.viol("C20", "read-only-contents", diff(&exp, &o));
                    }
                }
                Err(e) => self.api_err("C20", "read-only read", &e),
            },
        }
        {
            let s = ro.st();
            let c = s.contract.clone();
            let cc = s.close_count;
            let changed = s.live != image;
            drop(s);
            for x in c {
                self.viol("C20", "read-only-contract", x);
            }
            if cc != 1 {
                self.viol("C20", "close-count", format!("read-only database called close() {cc} times"));
            }
            if changed {
                self.viol("C20", "read-only-modified", "storage bytes changed under a read-only database".into());
            }
        }
        if let Err(e) = self.open_image(image, self.cache) {
            let e = e.to_string();
            self.api_err("C11", "reopen", &e);
            self.dead_end = true;
        }
    }

    /// C20: every way an open can fail must still close the backend exactly once and never touch
    /// it afterwards; the file must be none the worse for it.
    pub fn failing_open(&mut self, kind: u8, arg: u64) {
        if self.db.is_none() {
            return;
        }
        let kind = kind % 10;
        if kind == 8 {
            // the backend's own close() reports an error: still exactly one close, nothing after it
            self.disk.st().fail_close = true;
            let cache = self.cache;
            self.reopen(cache);
            return;
        }
        // a file that needs repair for kinds 3 and 5: power loss with everything written kept
        let image = if kind == 3 || kind == 5 {
            self.crash_now(&CrashChoice::AllKept)
        } else {
            self.close_clean();
            self.disk.st().live.clone()
        };
        let mut img = image.clone();
        match kind {
            0 => {
                if img.len() > 4 {
                    img[(arg % 9) as usize] ^= 0x5a;
                }
            }
            1 => {
                let keep = (arg as usize) % img.len().max(1);
                img.truncate(keep);
            }
            9 => {
                // read-only open of a cleanly closed file whose header was altered: the commit-slot
                // selector bits of the "god byte", or one byte of a commit slot. Whatever the open
                // decides, a read-only database never writes, resizes or syncs.
                if img.len() > 320 {
                    match arg % 4 {
                        0 => img[9] ^= 1,
                        1 => img[9] ^= 4,
                        2 => img[9] ^= 5,
                        _ => {
                            let at = 64 + ((arg >> 8) % 256) as usize;
                            img[at] ^= 1 << ((arg >> 4) % 8);
                        }
                    }
                }
            }
            6 | 7 => {
                // extended externally by whole pages (still a valid layout)
                let extra = (1 + arg % 4) as usize * self.cfg.page_size as usize;
                img.resize(img.len() + extra, 0);
            }
            _ => {}
        }
        let d = SimDisk::new(img);
        d.st().record = false;
        if kind == 4 {
            d.arm(vec![crate::disk::Fault { index: arg % 40, permanent: arg % 2 == 0, partial_permille: 0 }]);
        }
        self.stats.api_calls += 1;
        let cache = self.cache;
        let r = catch_unwind(AssertUnwindSafe(|| -> Result<(), String> {
            let mut b = self.builder(cache);
            match kind {
                2 => {
                    let other = if self.cfg.page_size == 4096 { 8192 } else { 4096 };
                    b.verif_set_page_size(other);
                    b.create_with_backend(d.clone()).map(drop).map_err(|e| e.to_string())
                }
                3 => {
                    b.set_repair_callback(|s| s.abort());
                    b.create_with_backend(d.clone()).map(drop).map_err(|e| e.to_string())
                }
                5 | 6 | 9 => {
                    d.st().read_only = true;
                    b.verif_open_read_only_with_backend(d.clone()).map(drop).map_err(|e| e.to_string())
                }
                _ => b.create_with_backend(d.clone()).map(drop).map_err(|e| e.to_string()),
            }
        }));
        let opened_ok = matches!(r, Ok(Ok(())));
        if std::env::var_os("SIM_TRACE").is_some() {
            let (calls, contract) = {
                let g = d.st();
                (g.stats.calls, g.contract.clone())
            };
            eprintln!("TRACE failing_open kind {kind} arg {arg}: result {:?}; calls {calls:?}; contract {contract:?}", r.as_ref().map_err(|_| "panic"));
        }
        // kinds 0, 1 and 9 hand redb a file whose bytes were damaged from outside (bad magic,
        // truncation, altered header): a panic on damaged bytes is counted as "reported", exactly as
        // the C12 check does, and not judged here; what C20 states -- the backend contract, one
        // close() -- is judged below for every kind. (Seen once: a file truncated inside a region
        // that a quick-repair allocator snapshot still describes trips an assertion in
        // buddy_allocator.rs instead of returning Corrupted; DESIGN.md, observation O2.)
        if r.is_err() && matches!(kind, 0 | 1 | 9) {
            self.probe("open_panic_on_damaged_file");
        }
        if r.is_err() && !matches!(kind, 0 | 1 | 9) {
            self.viol("C20", "open-panic", format!("an open (kind {kind}: {}) panicked: {}", ["bad magic", "truncated", "wrong page size", "repair aborted", "I/O fault", "read-only, needs repair", "read-only, file extended", "file extended", "", ""][kind as usize], crate::runner::last_panic()));
        }
        // (kind 9 alters stored bytes: a panic on damaged bytes is C12's "reported", not judged here;
        // the contract below is) -- except the panic of redb's own read-only wrapper, which is how
        // an attempted write / resize / sync of a read-only database surfaces before it can reach
        // the backend it was given
        if r.is_err() && kind == 9 && crate::runner::last_panic().contains("backends.rs") {
            self.viol("C20", "read-only-write", format!("a read-only open of a file with an altered header tried to write, resize or sync: {}", crate::runner::last_panic()));
        }
        {
            let s = d.st();
            let contract: Vec<String> = s.contract.clone();
            let cc = s.close_count;
            drop(s);
            for c in contract {
                self.viol("C20", "contract", format!("during a failing open (kind {kind}): {c}"));
            }
            if cc != 1 {
                self.viol("C20", "close-count", format!("an open of kind {kind} (succeeded: {opened_ok}) called close() {cc} times"));
            }
        }
        // the file must still open and hold the model's contents: the original one, or -- when the
        // failing open was an I/O fault in the middle of a recovery or of the open-time bookkeeping
        // -- what that open left on the medium, in a crash state (C08: a failed operation never
        // corrupts what was committed)
        let (image, faulted) = if kind == 4 {
            let s = d.st();
            (if arg % 3 == 0 { s.durable.clone() } else { s.live.clone() }, true)
        } else {
            (image, false)
        };
        match self.open_image(image, cache) {
            Ok(()) => {
                if kind == 3 || kind == 5 || faulted {
                    if !self.resync_after_recovery(if faulted { "C08" } else { "C01" }) {
                        self.dead_end = true;
                    }
                } else {
                    self.after_open_checks("C20", false);
                }
            }
            Err(e) => {
                let e = e.to_string();
                self.api_err("C20", "reopen after a failing open", &e);
                self.dead_end = true;
            }
        }
    }

    /// End of plan: close cleanly and verify what is on the medium by reopening once more.
    pub fn finish(&mut self) {
        if self.db.is_some() && self.viols.is_empty() {
            self.close_clean();
        } else if self.db.is_some() {
            self.drop_handles();
            let db = self.db.take();
            let _ = catch_unwind(AssertUnwindSafe(|| drop(db)));
            self.end_lifetime();
        }
    }
}

pub fn coerce_key(k: &KeyVal, kt: crate::plan::KT) -> Option<KeyVal> {
    use crate::plan::KT;
    match (k, kt) {
        (KeyVal::U(_), KT::U) | (KeyVal::S(_), KT::S) | (KeyVal::B(_), KT::B) => Some(k.clone()),
        (KeyVal::U(u), KT::S) => Some(KeyVal::S(format!("k{u:04}"))),
        (KeyVal::U(u), KT::B) => Some(KeyVal::B(format!("k{u:04}").into_bytes())),
        (KeyVal::S(s), KT::B) => Some(KeyVal::B(s.clone().into_bytes())),
        (KeyVal::S(s), KT::U) => Some(KeyVal::U(crate::rng::fnv(s.as_bytes()) % 64)),
        (KeyVal::B(b), KT::U) => Some(KeyVal::U(crate::rng::fnv(b) % 64)),
        (KeyVal::B(b), KT::S) => Some(KeyVal::S(String::from_utf8_lossy(b).into_owned())),
    }
}

pub fn coerce_bd(b: &Bd, kt: crate::plan::KT) -> Option<Bd> {
    Some(match b {
        Bd::Unb => Bd::Unb,
        Bd::Inc(k) => Bd::Inc(coerce_key(k, kt)?),
        Bd::Exc(k) => Bd::Exc(coerce_key(k, kt)?),
    })
}

/// lo <= hi (and not an empty excluded/excluded pair): ranges the std BTreeMap accepts
pub fn bounds_ok(lo: &Bd, hi: &Bd) -> bool {
    let (a, b) = match (lo, hi) {
        (Bd::Unb, _) | (_, Bd::Unb) => return true,
        (Bd::Inc(a), Bd::Inc(b)) | (Bd::Inc(a), Bd::Exc(b)) | (Bd::Exc(a), Bd::Inc(b)) => (a, b),
        (Bd::Exc(a), Bd::Exc(b)) => {
            if a == b {
                return false;
            }
            (a, b)
        }
    };
    a <= b
}

#[allow(dead_code)]
pub fn tname(n: u8) -> String {
    table_name(n)
}

#[allow(dead_code)]
pub fn psp_entry(seq: u64, snap: Arc<Tables>) -> PSp {
    PSp { seq, snap }
}

#[allow(dead_code)]
type _B = BTreeMap<u8, u8>;
