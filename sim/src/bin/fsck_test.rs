// Test driver for the independent redb decoder in ../fsck.rs
//
//   fsck_test <image.bin> <expected.json>     decode, compare with the model's contents, check the
//                                             allocator state rule; exit 0 iff everything agrees
//   fsck_test --fuzz <image.bin> <n>          targeted corruptions (must be detected) followed by n
//                                             random corruptions (must never panic)
//   fsck_test --selftest <image.bin>          semantic mutations with all checksums re-sealed: each
//                                             must trip the specific structural check (not a checksum)
//   fsck_test --info <image.bin>              print the header, the slot recovery would choose, errors

//
// Shell loop used to validate the decoder (678 images: 6 props x {default seed: runs 0,3,..198;
// seeds 7 and 12345: runs 1,10,..199}); every image must print PASS / FUZZ-PASS / SELFTEST-PASS:
//
//   SIM=/verif/target/sim/release/sim; T=/verif/target/sim/release/fsck_test; OUT=/tmp/fsck/imgs; mkdir -p $OUT
//   for seed in "" 7 12345; do for prop in C10 C09 C04 C07 C13 C01; do
//     if [ -z "$seed" ]; then runs=$(seq 0 3 200); else runs=$(seq 1 9 200); fi
//     for run in $runs; do base=$OUT/${prop}_s${seed:-d}_r${run}
//       if [ -z "$seed" ]; then $SIM dumpimage --prop $prop --run $run --out $base >/dev/null 2>&1
//       else VERIF_SEED=$seed $SIM dumpimage --prop $prop --run $run --out $base >/dev/null 2>&1; fi || continue
//       $T $base.bin $base.json && $T --fuzz $base.bin 500 && $T --selftest $base.bin || echo "FAILED $base"
//   done; done; done

#[path = "../fsck.rs"]
mod fsck;

use fsck::{Forest, Geometry, Header, PageId, TableDump};
use std::collections::{BTreeMap, BTreeSet};
use std::time::Instant;

fn unhex(s: &str) -> Vec<u8> {
    (0..s.len() / 2).map(|i| u8::from_str_radix(&s[2 * i..2 * i + 2], 16).unwrap()).collect()
}

fn kind_types(kind: &str) -> Option<(bool, &'static str, &'static str)> {
    Some(match kind {
        "TUB" => (false, "u64", "&[u8]"),
        "TSB" => (false, "&str", "&[u8]"),
        "TBU" => (false, "&[u8]", "u64"),
        "TSU" => (false, "&str", "u64"),
        "MUB" => (true, "u64", "&[u8]"),
        "MSU" => (true, "&str", "u64"),
        _ => return None,
    })
}

fn expected_tables(json: &serde_json::Value) -> Result<BTreeMap<String, TableDump>, String> {
    let mut out = BTreeMap::new();
    let tables = json["tables"].as_object().ok_or("no tables object")?;
    for (name, t) in tables {
        let kind = t["kind"].as_str().ok_or("no kind")?;
        let (mm, kt, vt) = kind_types(kind).ok_or_else(|| format!("unknown kind {kind}"))?;
        if t["multimap"].as_bool() != Some(mm) {
            return Err(format!("table {name}: kind {kind} vs multimap flag"));
        }
        let entries = t["entries"].as_array().ok_or("no entries")?;
        let dump = if mm {
            let mut es = Vec::new();
            for e in entries {
                let k = unhex(e[0].as_str().ok_or("bad key")?);
                let vs = e[1].as_array().ok_or("bad values")?.iter().map(|v| unhex(v.as_str().unwrap())).collect();
                es.push((k, vs));
            }
            TableDump::Multimap { key_type: kt.into(), value_type: vt.into(), entries: es }
        } else {
            let mut es = Vec::new();
            for e in entries {
                es.push((unhex(e[0].as_str().ok_or("bad key")?), unhex(e[1].as_str().ok_or("bad value")?)));
            }
            TableDump::Table { key_type: kt.into(), value_type: vt.into(), entries: es }
        };
        out.insert(name.clone(), dump);
    }
    Ok(out)
}

fn describe(t: &TableDump) -> String {
    match t {
        TableDump::Table { key_type, value_type, entries } => format!("Table<{key_type},{value_type}> with {} entries", entries.len()),
        TableDump::Multimap { key_type, value_type, entries } => format!(
            "Multimap<{key_type},{value_type}> with {} keys / {} values",
            entries.len(),
            entries.iter().map(|e| e.1.len()).sum::<usize>()
        ),
    }
}

fn expand(pages: impl Iterator<Item = PageId>, out: &mut BTreeMap<(u32, u64), u32>) {
    for p in pages {
        for i in p.start0()..p.start0() + p.len0() {
            *out.entry((p.region, i)).or_insert(0) += 1;
        }
    }
}

/// allocator state == data ∪ system ∪ data_freed ∪ system_freed (see the rule in fsck.rs)
fn check_allocator(h: &Header, slot: usize, f: &Forest, problems: &mut Vec<String>) {
    let geo = &h.geometry;
    let mut reach: BTreeMap<(u32, u64), u32> = BTreeMap::new();
    expand(f.data_pages.iter().copied().chain(f.system_pages.iter().copied()), &mut reach);
    let mut freed: BTreeMap<(u32, u64), u32> = BTreeMap::new();
    expand(f.data_freed.iter().map(|x| x.1).chain(f.system_freed.iter().map(|x| x.1)), &mut freed);
    for (k, c) in &freed {
        if *c > 1 {
            problems.push(format!("order-0 page r{}.{} listed {c} times in the freed tables", k.0, k.1));
        }
        if reach.contains_key(k) {
            problems.push(format!("order-0 page r{}.{} is reachable AND listed in a freed table", k.0, k.1));
        }
    }
    // data_allocated pages must be allocated (reachable or pending free)
    let mut allocd: BTreeMap<(u32, u64), u32> = BTreeMap::new();
    expand(f.data_allocated.iter().map(|x| x.1), &mut allocd);
    for k in allocd.keys() {
        if !reach.contains_key(k) && !freed.contains_key(k) {
            problems.push(format!("order-0 page r{}.{} in data_pages_allocated is neither reachable nor pending free", k.0, k.1));
        }
    }
    let Some(st) = &f.allocator_state else {
        problems.push("no allocator state table in a cleanly closed image".into());
        return;
    };
    if !st.raw_ok {
        problems.push("allocator state did not parse".into());
    }
    if !st.has_region_tracker {
        problems.push("allocator state has no region tracker entry".into());
    }
    if st.txn_id != Some(h.slots[slot].txn_id) {
        problems.push(format!("allocator state txn id {:?} != slot txn id {}", st.txn_id, h.slots[slot].txn_id));
    }
    if (st.regions.len() as u32) < geo.num_regions() {
        problems.push(format!("allocator state has {} regions, file has {}", st.regions.len(), geo.num_regions()));
    }
    let expected: BTreeSet<(u32, u64)> = reach.keys().chain(freed.keys()).copied().collect();
    let mut actual: BTreeSet<(u32, u64)> = BTreeSet::new();
    for (r, pages) in st.regions.iter().enumerate() {
        if (pages.len() as u64) < u64::from(geo.region_pages(r as u32)) {
            problems.push(format!("allocator for region {r} covers {} pages, region has {}", pages.len(), geo.region_pages(r as u32)));
        }
        for (i, a) in pages.iter().enumerate() {
            if *a {
                actual.insert((r as u32, i as u64));
                if i as u64 >= u64::from(geo.region_pages(r as u32)) {
                    problems.push(format!("allocator marks r{r}.{i} allocated but it lies beyond the end of the file"));
                }
            }
        }
    }
    let mut n = 0;
    for k in actual.difference(&expected) {
        n += 1;
        if n <= 10 {
            problems.push(format!("order-0 page r{}.{} allocated in allocator state but not reachable/pending-free (leak)", k.0, k.1));
        }
    }
    for k in expected.difference(&actual) {
        n += 1;
        if n <= 20 {
            problems.push(format!("order-0 page r{}.{} reachable/pending-free but FREE in allocator state", k.0, k.1));
        }
    }
    if n > 20 {
        problems.push(format!("... {n} allocator differences in total"));
    }
}

fn run_compare(image_path: &str, json_path: &str) -> i32 {
    let image = std::fs::read(image_path).expect("read image");
    let json: serde_json::Value = serde_json::from_str(&std::fs::read_to_string(json_path).expect("read json")).expect("parse json");
    let mut best = u128::MAX;
    let mut res = None;
    for _ in 0..5 {
        let t = Instant::now();
        let r = fsck::decode_image(&image);
        best = best.min(t.elapsed().as_micros());
        res = Some(r);
    }
    let (h, slot, f) = match res.unwrap() {
        Ok(x) => x,
        Err(e) => {
            println!("FAIL {image_path}: decode_image error: {e}");
            return 1;
        }
    };
    let mut problems: Vec<String> = Vec::new();
    for e in &f.errors {
        problems.push(format!("structure: {e}"));
    }
    if h.recovery_required {
        problems.push("recovery_required set in a cleanly closed image".into());
    }
    if slot != h.primary {
        problems.push(format!("chose slot {slot}, primary is {}", h.primary));
    }
    if h.geometry.file_len() != image.len() as u64 {
        problems.push(format!("geometry length {} != image length {}", h.geometry.file_len(), image.len()));
    }
    match expected_tables(&json) {
        Ok(exp) => {
            let en: Vec<&String> = exp.keys().collect();
            let an: Vec<&String> = f.tables.keys().collect();
            if en != an {
                problems.push(format!("table names differ: expected {en:?}, found {an:?}"));
            }
            for (name, e) in &exp {
                if let Some(a) = f.tables.get(name) {
                    if a != e {
                        problems.push(format!("table {name}: expected {}, found {}", describe(e), describe(a)));
                    }
                }
            }
        }
        Err(e) => problems.push(format!("expected json: {e}")),
    }
    let exp_sp: Vec<u64> = json["persistent_savepoints"].as_array().map(|a| a.iter().filter_map(|x| x.as_u64()).collect()).unwrap_or_default();
    let act_sp: Vec<u64> = f.savepoints.iter().map(|s| s.0).collect();
    let (mut e2, mut a2) = (exp_sp.clone(), act_sp.clone());
    e2.sort_unstable();
    a2.sort_unstable();
    if e2 != a2 {
        problems.push(format!("persistent savepoints: expected {exp_sp:?}, found {act_sp:?}"));
    }
    if act_sp.windows(2).any(|w| w[0] >= w[1]) {
        problems.push(format!("savepoint ids not ascending: {act_sp:?}"));
    }
    check_allocator(&h, slot, &f, &mut problems);

    let subtree_pages = f.data_pages.len();
    println!(
        "{} {image_path}: {} bytes page_size={} regions={} tables={} data_pages={} system_pages={} freed={}+{} allocated_tbl={} savepoints={} depth={} subtrees={} bigpages={} alloc_beyond_file={} decode={}us",
        if problems.is_empty() { "PASS" } else { "FAIL" },
        image.len(),
        h.geometry.page_size,
        h.geometry.num_regions(),
        f.tables.len(),
        subtree_pages,
        f.system_pages.len(),
        f.data_freed.len(),
        f.system_freed.len(),
        f.data_allocated.len(),
        f.savepoints.len(),
        f.max_depth,
        f.subtrees,
        f.data_pages.iter().chain(f.system_pages.iter()).filter(|p| p.order > 0).count(),
        f.allocator_state.as_ref().map_or(0, |st| st
            .regions
            .iter()
            .enumerate()
            .map(|(r, v)| v.len().saturating_sub(h.geometry.region_pages(r as u32) as usize))
            .sum::<usize>()),
        best
    );
    for p in problems.iter().take(40) {
        println!("    {p}");
    }
    i32::from(!problems.is_empty())
}

struct Rng(u64);
impl Rng {
    fn next(&mut self) -> u64 {
        // splitmix64
        self.0 = self.0.wrapping_add(0x9E37_79B9_7F4A_7C15);
        let mut z = self.0;
        z = (z ^ (z >> 30)).wrapping_mul(0xBF58_476D_1CE4_E5B9);
        z = (z ^ (z >> 27)).wrapping_mul(0x94D0_49BB_1331_11EB);
        z ^ (z >> 31)
    }
    fn below(&mut self, n: u64) -> u64 {
        if n == 0 { 0 } else { self.next() % n }
    }
}

fn page_range(geo: &Geometry, p: PageId) -> (usize, usize) {
    let s = geo.page_offset(p) as usize;
    (s, s + geo.page_len(p) as usize)
}

fn decode_caught(img: &[u8]) -> Result<Result<(Header, usize, Forest), String>, String> {
    let r = std::panic::catch_unwind(|| fsck::decode_image(img));
    r.map_err(|e| {
        if let Some(s) = e.downcast_ref::<String>() {
            s.clone()
        } else if let Some(s) = e.downcast_ref::<&str>() {
            (*s).to_string()
        } else {
            "panic".to_string()
        }
    })
}

fn run_fuzz(image_path: &str, n: u64) -> i32 {
    let image = std::fs::read(image_path).expect("read image");
    let (h, _slot, f) = match fsck::decode_image(&image) {
        Ok(x) => x,
        Err(e) => {
            println!("FAIL {image_path}: baseline decode error {e}");
            return 1;
        }
    };
    if !f.errors.is_empty() {
        println!("FAIL {image_path}: baseline has errors: {:?}", &f.errors[..f.errors.len().min(3)]);
        return 1;
    }
    std::panic::set_hook(Box::new(|_| {}));
    let geo = h.geometry;
    let pages: Vec<PageId> = f.data_pages.iter().chain(f.system_pages.iter()).copied().collect();
    let mut failures = 0u32;
    let mut panics = 0u32;
    let mut targeted = 0u32;

    // 1. flip one byte inside the used area of every reachable page: must be detected
    for (pi, p) in pages.iter().enumerate() {
        let (s, _e) = page_range(&geo, *p);
        for off in [2usize, 5] {
            let mut img = image.clone();
            img[s + off] ^= 0x01 << (pi % 8);
            targeted += 1;
            match decode_caught(&img) {
                Err(msg) => {
                    panics += 1;
                    println!("PANIC flipping byte {off} of page {p}: {msg}");
                }
                Ok(Ok((_, _, f2))) if f2.errors.is_empty() => {
                    failures += 1;
                    println!("UNDETECTED: flipped byte {off} of page {p}");
                }
                _ => {}
            }
        }
    }
    // 2. swap two pages with different contents: must be detected
    let order0: Vec<PageId> = pages.iter().copied().filter(|p| p.order == 0).collect();
    let mut rng = Rng(0x5EED ^ image.len() as u64);
    let mut swaps = 0;
    for _ in 0..200 {
        if order0.len() < 2 || swaps >= 40 {
            break;
        }
        let a = order0[rng.below(order0.len() as u64) as usize];
        let b = order0[rng.below(order0.len() as u64) as usize];
        let (sa, ea) = page_range(&geo, a);
        let (sb, eb) = page_range(&geo, b);
        // compare only the bytes that matter: a swap of pages that differ only in unused garbage
        // is detected as well (the used length is part of the page), but identical pages are not
        if a == b || image[sa..ea] == image[sb..eb] {
            continue;
        }
        swaps += 1;
        targeted += 1;
        let mut img = image.clone();
        let pa = image[sa..ea].to_vec();
        let pb = image[sb..eb].to_vec();
        img[sa..ea].copy_from_slice(&pb);
        img[sb..eb].copy_from_slice(&pa);
        match decode_caught(&img) {
            Err(msg) => {
                panics += 1;
                println!("PANIC swapping {a} and {b}: {msg}");
            }
            Ok(Ok((_, _, f2))) if f2.errors.is_empty() => {
                failures += 1;
                println!("UNDETECTED: swapped pages {a} and {b}");
            }
            _ => {}
        }
    }
    // 3. random corruptions: must never panic
    let mut detected = 0u64;
    let mut rejected = 0u64;
    let mut clean = 0u64;
    for it in 0..n {
        let mut img = image.clone();
        let flips = 1 + rng.below(8);
        for _ in 0..flips {
            let off = match rng.below(4) {
                // header
                0 => rng.below(320) as usize,
                // inside a reachable page, biased to its beginning (headers / offset tables)
                1 | 2 if !pages.is_empty() => {
                    let p = pages[rng.below(pages.len() as u64) as usize];
                    let (s, e) = page_range(&geo, p);
                    let span = if rng.below(2) == 0 { (e - s).min(64) } else { e - s };
                    s + rng.below(span as u64) as usize
                }
                _ => rng.below(img.len() as u64) as usize,
            };
            match rng.below(5) {
                0 => img[off] ^= 1u8 << rng.below(8),
                1 => img[off] ^= 0xFF,
                2 => img[off] ^= rng.next() as u8 | 1,
                // overwrite a span with random bytes / a constant
                k => {
                    let span = 1 + rng.below(64) as usize;
                    let fill = [0x00u8, 0xFF][rng.below(2) as usize];
                    for b in img.iter_mut().skip(off).take(span) {
                        *b = if k == 3 { rng.next() as u8 } else { fill };
                    }
                }
            }
        }
        // sometimes play with the god byte / truncate so recovery paths are exercised
        match it % 7 {
            0 => img[9] |= 2,
            1 => img[9] = (img[9] | 2) & !4,
            2 => {
                let cut = rng.below(img.len() as u64) as usize;
                img.truncate(cut);
            }
            _ => {}
        }
        match decode_caught(&img) {
            Err(msg) => {
                panics += 1;
                println!("PANIC in random corruption {it}: {msg}");
            }
            Ok(Err(_)) => rejected += 1,
            Ok(Ok((_, _, f2))) => {
                if f2.errors.is_empty() {
                    clean += 1
                } else {
                    detected += 1
                }
            }
        }
    }
    let ok = failures == 0 && panics == 0;
    println!(
        "{} {image_path}: targeted={targeted} undetected={failures} random={n} (errors={detected} rejected={rejected} clean={clean}) panics={panics}",
        if ok { "FUZZ-PASS" } else { "FUZZ-FAIL" }
    );
    i32::from(!ok)
}

// ---------------------------------------------------------------------------------------------
// semantic self test: mutate a well-formed image, re-seal every checksum so that the mutation is
// invisible to the Merkle tree, and expect the specific structural check to fire
// ---------------------------------------------------------------------------------------------

#[derive(Clone, Copy, Debug)]
enum Kind {
    Catalog,
    /// outer btree of a multimap; payload = fixed width of the multimap's value type
    Multimap(Option<usize>),
    Plain,
}

fn put(img: &mut [u8], off: usize, bytes: &[u8]) {
    img[off..off + bytes.len()].copy_from_slice(bytes);
}
fn get_u64(img: &[u8], off: usize) -> u64 {
    u64::from_le_bytes(img[off..off + 8].try_into().unwrap())
}

/// recomputes every checksum below (and including) page `p`; returns p's checksum
fn reseal(img: &mut Vec<u8>, geo: &Geometry, p: PageId, fk: Option<usize>, fv: Option<usize>, kind: Kind, depth: u32) -> u128 {
    assert!(depth < 100);
    let (s, e) = page_range(geo, p);
    if img[s] == 1 {
        let leaf = fsck::parse_leaf(&img[s..e], fk, fv).expect("reseal leaf");
        for &(_, (vs, ve)) in &leaf.pairs {
            match kind {
                Kind::Catalog => {
                    let def = fsck::parse_table_def(&img[s + vs..s + ve]).expect("reseal def");
                    if let Some(r) = def.root {
                        let (cfv, ckind) = if def.multimap { (None, Kind::Multimap(def.fv)) } else { (def.fv, Kind::Plain) };
                        let c = reseal(img, geo, r.page, def.fk, cfv, ckind, depth + 1);
                        put(img, s + vs + 18, &c.to_le_bytes());
                    }
                }
                Kind::Multimap(vw) => {
                    if img[s + vs] == 3 {
                        let r = PageId::from_u64(get_u64(img, s + vs + 1));
                        let c = reseal(img, geo, r, vw, Some(0), Kind::Plain, depth + 1);
                        put(img, s + vs + 9, &c.to_le_bytes());
                    }
                }
                Kind::Plain => {}
            }
        }
        fsck::xxh3(&img[s..s + leaf.used])
    } else {
        let br = fsck::parse_branch(&img[s..e], fk).expect("reseal branch");
        for (i, &(_, child)) in br.children.iter().enumerate() {
            let c = reseal(img, geo, child, fk, fv, kind, depth + 1);
            put(img, s + 8 + 16 * i, &c.to_le_bytes());
        }
        fsck::xxh3(&img[s..s + br.used])
    }
}

fn reseal_image(img: &mut Vec<u8>, geo: &Geometry, slot: usize) {
    let so = 64 + 128 * slot;
    for (flag, root_off) in [(so + 1, so + 8), (so + 2, so + 40)] {
        if img[flag] != 0 {
            let p = PageId::from_u64(get_u64(img, root_off));
            let c = reseal(img, geo, p, None, None, Kind::Catalog, 0);
            put(img, root_off + 8, &c.to_le_bytes());
        }
    }
    let c = fsck::xxh3(&img[so..so + 112]);
    put(img, so + 112, &c.to_le_bytes());
}

#[derive(Clone, Debug)]
struct Node {
    page: PageId,
    off: usize,
    leaf: bool,
    depth: u32,
    fk: Option<usize>,
    fv: Option<usize>,
    kind: Kind,
}

fn collect(img: &[u8], geo: &Geometry, p: PageId, fk: Option<usize>, fv: Option<usize>, kind: Kind, depth: u32, out: &mut Vec<Node>) {
    let (s, e) = page_range(geo, p);
    let leaf = img[s] == 1;
    out.push(Node { page: p, off: s, leaf, depth, fk, fv, kind });
    if leaf {
        let l = fsck::parse_leaf(&img[s..e], fk, fv).expect("collect leaf");
        for &(_, (vs, ve)) in &l.pairs {
            match kind {
                Kind::Catalog => {
                    let def = fsck::parse_table_def(&img[s + vs..s + ve]).expect("collect def");
                    if let Some(r) = def.root {
                        let (cfv, ckind) = if def.multimap { (None, Kind::Multimap(def.fv)) } else { (def.fv, Kind::Plain) };
                        collect(img, geo, r.page, def.fk, cfv, ckind, 1, out);
                    }
                }
                Kind::Multimap(vw) => {
                    if img[s + vs] == 3 {
                        collect(img, geo, PageId::from_u64(get_u64(img, s + vs + 1)), vw, Some(0), Kind::Plain, 1, out);
                    }
                }
                Kind::Plain => {}
            }
        }
    } else {
        let b = fsck::parse_branch(&img[s..e], fk).expect("collect branch");
        for &(_, child) in &b.children {
            collect(img, geo, child, fk, fv, kind, depth + 1, out);
        }
    }
}

fn run_selftest(image_path: &str) -> i32 {
    let image = std::fs::read(image_path).expect("read image");
    let (h, slot, f) = match fsck::decode_image(&image) {
        Ok(x) if x.2.errors.is_empty() => x,
        other => {
            println!("SELFTEST-FAIL {image_path}: baseline not clean: {:?}", other.map(|x| x.2.errors));
            return 1;
        }
    };
    let geo = h.geometry;
    let so = 64 + 128 * slot;
    let Some(user_root) = h.slots[slot].user_root else {
        println!("SELFTEST-PASS {image_path}: (no user tree)");
        return 0;
    };
    let mut nodes = Vec::new();
    collect(&image, &geo, user_root.page, None, None, Kind::Catalog, 1, &mut nodes);
    let reachable: BTreeSet<(u32, u64)> = {
        let mut m = BTreeMap::new();
        expand(f.data_pages.iter().copied().chain(f.system_pages.iter().copied()), &mut m);
        m.into_keys().collect()
    };
    let page_of = |n: &Node| -> &[u8] { &image[n.off..n.off + geo.page_len(n.page) as usize] };

    // (name, expected substring, mutated image)
    let mut muts: Vec<(&str, &str, Vec<u8>)> = Vec::new();

    // M1: number of tables in the slot
    {
        let mut img = image.clone();
        let v = get_u64(&img, so + 8 + 24) + 1;
        put(&mut img, so + 8 + 24, &v.to_le_bytes());
        muts.push(("M1-slot-length", "btree header length", img));
    }
    // M2 / M3: table_length and table root length of the first table definition
    if let Some(cat) = nodes.iter().find(|n| n.leaf && matches!(n.kind, Kind::Catalog)) {
        let l = fsck::parse_leaf(page_of(cat), None, None).unwrap();
        let (_, (vs, ve)) = l.pairs[0];
        let def = fsck::parse_table_def(&image[cat.off + vs..cat.off + ve]).unwrap();
        let mut img = image.clone();
        let v = get_u64(&img, cat.off + vs + 1) + 1;
        put(&mut img, cat.off + vs + 1, &v.to_le_bytes());
        muts.push(("M2-table-length", "table_length", img));
        if def.root.is_some() {
            let mut img = image.clone();
            let v = get_u64(&img, cat.off + vs + 10 + 24) + 1;
            put(&mut img, cat.off + vs + 10 + 24, &v.to_le_bytes());
            muts.push(("M3-table-root-length", "btree header length", img));
        }
    }
    // M4: swap two adjacent keys of equal length in a table leaf
    for n in nodes.iter().filter(|n| n.leaf && !matches!(n.kind, Kind::Catalog)) {
        let l = fsck::parse_leaf(page_of(n), n.fk, n.fv).unwrap();
        if l.pairs.len() >= 2 {
            let ((a0, a1), _) = l.pairs[0];
            let ((b0, b1), _) = l.pairs[1];
            if a1 - a0 == b1 - b0 && a1 > a0 {
                let mut img = image.clone();
                let ka = image[n.off + a0..n.off + a1].to_vec();
                let kb = image[n.off + b0..n.off + b1].to_vec();
                put(&mut img, n.off + a0, &kb);
                put(&mut img, n.off + b0, &ka);
                muts.push(("M4-key-order", "not greater than previous", img));
                break;
            }
        }
    }
    // M5: routing key too large / too small;  M7: duplicate child;  M10: overlapping higher order page
    let mut done5 = false;
    let mut done7 = false;
    let mut done10 = false;
    for n in nodes.iter().filter(|n| !n.leaf) {
        let b = fsck::parse_branch(page_of(n), n.fk).unwrap();
        let nc = b.children.len();
        let (k0, k1) = b.keys[0];
        if !done5 && k1 > k0 && image[n.off + k0..n.off + k1].iter().any(|x| *x != 0) {
            done5 = true;
            let mut img = image.clone();
            put(&mut img, n.off + k0, &vec![0xFF; k1 - k0]);
            muts.push(("M5a-routing-key-high", "routing key", img));
            let mut img = image.clone();
            put(&mut img, n.off + k0, &vec![0x00; k1 - k0]);
            muts.push(("M5b-routing-key-low", "routing key", img));
        }
        if !done7 {
            done7 = true;
            let mut img = image.clone();
            put(&mut img, n.off + 8 + 16 * nc + 8, &b.children[0].1.to_u64().to_le_bytes());
            muts.push(("M7-duplicate-child", "referenced more than once", img));
        }
        if !done10 {
            for (i, &(_, c)) in b.children.iter().enumerate() {
                if c.order == 0
                    && c.index % 2 == 0
                    && reachable.contains(&(c.region, u64::from(c.index) + 1))
                    && c.index + 2 <= geo.region_pages(c.region)
                {
                    done10 = true;
                    let big = PageId { region: c.region, index: c.index / 2, order: 1 };
                    let mut img = image.clone();
                    put(&mut img, n.off + 8 + 16 * nc + 8 * i, &big.to_u64().to_le_bytes());
                    muts.push(("M10-order-overlap", "overlap", img));
                    break;
                }
            }
        }
    }
    // M6: leaves at different depths (needs a tree of depth 3)
    'm6: for (i, n) in nodes.iter().enumerate() {
        if n.leaf || n.depth != 1 {
            continue;
        }
        let b = fsck::parse_branch(page_of(n), n.fk).unwrap();
        let child0 = b.children[0].1;
        // the child node directly follows in preorder
        if let Some(c) = nodes.get(i + 1) {
            if c.page == child0 && !c.leaf {
                let cb = fsck::parse_branch(page_of(c), c.fk).unwrap();
                let mut img = image.clone();
                put(&mut img, n.off + 8 + 16 * b.children.len(), &cb.children[0].1.to_u64().to_le_bytes());
                muts.push(("M6-leaf-depth", "at depth", img));
                break 'm6;
            }
        }
    }
    // M8: value count of a multimap subtree
    'm8: for n in nodes.iter().filter(|n| n.leaf && matches!(n.kind, Kind::Multimap(_))) {
        let l = fsck::parse_leaf(page_of(n), n.fk, n.fv).unwrap();
        for &(_, (vs, _)) in &l.pairs {
            if image[n.off + vs] == 3 {
                let mut img = image.clone();
                let v = get_u64(&img, n.off + vs + 1 + 24) + 1;
                put(&mut img, n.off + vs + 1 + 24, &v.to_le_bytes());
                muts.push(("M8-subtree-length", "btree header length", img));
                break 'm8;
            }
        }
    }

    let mut missed = Vec::new();
    let mut names = Vec::new();
    for (name, expect, mut img) in muts {
        reseal_image(&mut img, &geo, slot);
        names.push(name);
        match decode_caught(&img) {
            Ok(Ok((_, _, f2))) => {
                let hit = f2.errors.iter().any(|e| e.contains(expect));
                if !hit || f2.checksum_errors != 0 {
                    missed.push(format!("{name}: expected '{expect}', checksum_errors={}, errors={:?}", f2.checksum_errors, &f2.errors[..f2.errors.len().min(4)]));
                }
            }
            Ok(Err(e)) => missed.push(format!("{name}: decode_image rejected the image: {e}")),
            Err(p) => missed.push(format!("{name}: PANIC {p}")),
        }
    }
    println!("{} {image_path}: {}", if missed.is_empty() { "SELFTEST-PASS" } else { "SELFTEST-FAIL" }, names.join(" "));
    for m in &missed {
        println!("    {m}");
    }
    i32::from(!missed.is_empty())
}

fn run_info(image_path: &str) -> i32 {
    let image = std::fs::read(image_path).expect("read image");
    match decode_caught(&image) {
        Ok(Ok((h, slot, f))) => {
            println!(
                "god_byte={:#04x} primary={} recovery_required={} two_phase={} geometry={:?}",
                h.god_byte, h.primary, h.recovery_required, h.two_phase, h.geometry
            );
            for (i, s) in h.slots.iter().enumerate() {
                println!("slot {i}: valid_checksum={} version={} txn_id={} user_root={:?} system_root={:?}", s.valid_checksum, s.version, s.txn_id, s.user_root.map(|r| r.page), s.system_root.map(|r| r.page));
            }
            println!(
                "chosen slot {slot}: errors={} (checksum {}) tables={} data_pages={} system_pages={} allocator_state={}",
                f.errors.len(),
                f.checksum_errors,
                f.tables.len(),
                f.data_pages.len(),
                f.system_pages.len(),
                f.allocator_state.is_some()
            );
            for e in f.errors.iter().take(10) {
                println!("    {e}");
            }
            i32::from(!f.errors.is_empty())
        }
        Ok(Err(e)) => {
            println!("decode_image error: {e}");
            1
        }
        Err(p) => {
            println!("PANIC: {p}");
            3
        }
    }
}

fn main() {
    let args: Vec<String> = std::env::args().collect();
    let code = if args.len() == 4 && args[1] == "--fuzz" {
        run_fuzz(&args[2], args[3].parse().expect("n"))
    } else if args.len() == 3 && args[1] == "--info" {
        run_info(&args[2])
    } else if args.len() == 3 && args[1] == "--selftest" {
        run_selftest(&args[2])
    } else if args.len() == 3 {
        run_compare(&args[1], &args[2])
    } else {
        eprintln!("usage: fsck_test <image.bin> <expected.json> | fsck_test --fuzz <image.bin> <n> | fsck_test --selftest <image.bin> | fsck_test --info <image.bin>");
        2
    };
    std::process::exit(code);
}
