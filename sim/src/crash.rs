//! Crash exploration ("record once, crash many"): from the recorded op log of a finished,
//! fault-free run, materialise crash images at chosen instants under chosen survival patterns of
//! the un-synced writes, recover each with the real redb, and check the C01 rule.

use crate::disk::{CrashChoice, CrashWalker, Marker, Op as DOp};
use crate::exec::{Exec, Lifetime, Mode, Viol};
use crate::model::DbState;
use crate::plan::{Cfg, Plan, Step};
use crate::plangen::{Gen, Profile};
use crate::rng::Rng;
use serde::{Deserialize, Serialize};
use std::collections::BTreeSet;
use std::panic::{catch_unwind, AssertUnwindSafe};
use std::sync::Arc;

#[derive(Clone, Debug, Serialize, Deserialize, PartialEq)]
pub struct CrashPoint {
    pub lifetime: usize,
    pub index: usize,
    pub choice: CrashChoice,
    /// crash again inside the recovery run: (index into the recovery's log, choice)
    pub nested: Vec<(usize, CrashChoice)>,
    /// seed for the post-recovery workload
    pub post_seed: u64,
}

#[derive(Default, Clone, Debug, Serialize, Deserialize)]
pub struct CrashStats {
    pub images: u64,
    pub nested_images: u64,
    pub recovered_to_newest: u64,
    pub recovered_to_older: u64,
    pub nondurable_pending_at_crash: u64,
    pub with_torn_write: u64,
    pub with_lost_len: u64,
    pub pending_total: u64,
    pub post_workloads: u64,
    pub distinct_images: u64,
    pub corrupt_reported_at_open: u64,
    pub corrupt_reported_by_integrity_err: u64,
    pub corrupt_reported_by_panic: u64,
    pub corrupt_repaired_ok_false: u64,
    pub corrupt_harmless_ok_true: u64,
}

/// The allowed-version sets along a lifetime's log: allowed_at[k] = admissible versions for a
/// crash just before log[k]. Computed from the markers only.
pub fn allowed_along(life: &Lifetime) -> (Vec<Arc<BTreeSet<usize>>>, usize) {
    let mut allowed = life.allowed_at_start.clone();
    let mut cur = allowed.iter().next_back().copied().unwrap_or(0);
    let mut out = Vec::with_capacity(life.log.len() + 1);
    let mut shared = Arc::new(allowed.clone());
    let mut first_open_end = 0usize;
    let mut seen_open_end = false;
    for (i, op) in life.log.iter().enumerate() {
        out.push(shared.clone());
        if let DOp::Marker(m) = op {
            match m {
                Marker::CommitRequested { v, .. } => {
                    allowed.insert(*v as usize);
                }
                Marker::CommitAcked { v, durable } => {
                    cur = *v as usize;
                    if *durable {
                        allowed.retain(|x| *x >= cur);
                    }
                }
                Marker::CommitFailed { v } => {
                    allowed.remove(&(*v as usize));
                }
                Marker::CloseEnd | Marker::IntegrityEnd | Marker::CompactEnd => {
                    allowed.retain(|x| *x >= cur);
                }
                Marker::Resynced { landed, new } => {
                    allowed.retain(|x| *x <= *landed as usize);
                    allowed.insert(*new as usize);
                    cur = *new as usize;
                }
                Marker::OpenEnd => {
                    if !seen_open_end {
                        seen_open_end = true;
                        first_open_end = i + 1;
                    }
                }
                _ => {}
            }
            shared = Arc::new(allowed.clone());
        }
    }
    out.push(shared);
    (out, first_open_end)
}

/// Instants worth crashing at: around syncs, header writes, length changes and API boundaries.
pub fn interesting_points(life: &Lifetime, from: usize) -> Vec<usize> {
    let mut pts = BTreeSet::new();
    let n = life.log.len();
    for (i, op) in life.log.iter().enumerate() {
        let hit = match op {
            DOp::Sync { .. } => true,
            DOp::SetLen { .. } => true,
            DOp::Write { off, .. } => *off < 512,
            DOp::Marker(_) => true,
            DOp::Close => true,
            _ => false,
        };
        if hit {
            for d in [i, i + 1] {
                if d >= from && d <= n {
                    pts.insert(d);
                }
            }
        }
    }
    pts.into_iter().collect()
}

pub struct Recovered {
    pub viols: Vec<Viol>,
    pub to_version: Option<usize>,
    pub recovery_log: Vec<DOp>,
    pub recovery_base: Vec<u8>,
}

/// Open a crash image, check the C01 rule and the follow-up obligations.
pub fn recover_and_check(
    cfg: &Cfg,
    cache: u64,
    image: Vec<u8>,
    versions: &[Arc<DbState>],
    allowed: &BTreeSet<usize>,
    post_seed: u64,
    record: bool,
    post_workload: bool,
) -> Recovered {
    let mut ex = Exec::new(cfg.clone(), Mode::Strict);
    ex.versions = versions.to_vec();
    ex.allowed = allowed.clone();
    ex.cur = *allowed.iter().next_back().unwrap();
    ex.keep_lifetimes = record;
    ex.sp_seq = versions.iter().flat_map(|v| v.psp.values().map(|p| p.seq)).max().unwrap_or(0);
    let mut to_version = None;
    let base = image.clone();
    let r = catch_unwind(AssertUnwindSafe(|| {
        match ex.open_image(image, cache) {
            Err(e) => {
                ex.viol("C01", "recovery-open", format!("opening the crash image failed: {e}"));
                return;
            }
            Ok(()) => {}
        }
        let before = ex.versions.len();
        if !ex.resync_after_recovery("C01") {
            return;
        }
        if std::env::var_os("SIM_TRACE").is_some() {
            eprintln!("TRACE recovered ok; versions now {}", ex.versions.len());
        }
        // which admissible version did we land on? (resync pushed a copy as the newest)
        let landed = ex.versions[before].clone();
        to_version = allowed.iter().rev().find(|v| *ex.versions[**v] == *landed).copied();
        ex.after_open_checks("C11", true);
        if !ex.viols.is_empty() {
            return;
        }
        if std::env::var_os("SIM_TRACE").is_some() {
            eprintln!("TRACE after_open_checks ok");
        }
        ex.verify_psp_contents();
        if std::env::var_os("SIM_TRACE").is_some() {
            eprintln!("TRACE verify_psp_contents done viols={:?}", ex.viols);
        }
        if !ex.viols.is_empty() {
            return;
        }
        ex.check_integrity();
        if !ex.viols.is_empty() {
            return;
        }
        if post_workload {
            // "writing after a reopen never damages existing data"
            let mut rng = Rng::new(post_seed);
            let mut prof = Profile::base("post");
            prof.steps = (1, 4);
            prof.w_crash = 0;
            prof.w_dropdb = 0;
            prof.w_readonly = 0;
            prof.p_panic = 0;
            let mut g = Gen::new(&mut rng, prof);
            g.page = cfg.page_size;
            g.set_geometry(cfg);
            let mut steps: Vec<Step> = (0..g.rng.range(1, 3)).map(|_| Step::Txn(g.txn())).collect();
            steps.push(Step::Reopen { cache });
            steps.push(Step::CheckIntegrity);
            let plan = Plan { cfg: cfg.clone(), steps };
            ex.run(&plan);
        }
    }));
    if r.is_err() {
        ex.viol("C01", "recovery-panic", format!("panic while recovering / using a crash image: {}", crate::runner::last_panic()));
    }
    // take the recovery lifetime's log before closing (for nested crashes)
    let (recovery_log, recovery_base) = if record {
        let s = ex.disk.st();
        (s.log.clone(), base)
    } else {
        (vec![], vec![])
    };
    let _ = catch_unwind(AssertUnwindSafe(|| ex.finish()));
    Recovered { viols: ex.viols, to_version, recovery_log, recovery_base }
}

/// Evaluate one crash point (with its nested chain) against a finished run.
pub fn eval_point(
    cfg: &Cfg,
    cache: u64,
    lifetimes: &[Lifetime],
    versions: &[Arc<DbState>],
    pt: &CrashPoint,
    stats: &mut CrashStats,
    post_workload: bool,
) -> Vec<Viol> {
    let Some(life) = lifetimes.get(pt.lifetime) else { return vec![] };
    let (allowed_at, first_open_end) = allowed_along(life);
    if pt.index > life.log.len() || (life.created && pt.index < first_open_end) {
        return vec![];
    }
    let allowed = allowed_at[pt.index].clone();
    let mut w = CrashWalker::new(life.base.clone(), &life.log);
    w.advance_to(pt.index);
    let (mut image, info) = w.image(&pt.choice);
    if std::env::var_os("SIM_TRACE").is_some() {
        eprintln!("TRACE crash point {pt:?}: allowed={allowed:?} info={info:?} log_len={}", life.log.len());
        let lo = pt.index.saturating_sub(70);
        for (i, op) in life.log.iter().enumerate().skip(lo).take(pt.index - lo + 12) {
            let d = match op {
                DOp::Write { off, data, applied } => format!("write off={off} len={} applied={applied}", data.len()),
                DOp::Read { .. } | DOp::Len => continue,
                o => format!("{o:?}"),
            };
            eprintln!("TRACE  {}{i}: {d}", if i == pt.index { ">>" } else { "  " });
        }
    }
    stats.images += 1;
    stats.pending_total += info.pending as u64;
    if info.torn > 0 {
        stats.with_torn_write += 1;
    }
    if info.lens_dropped > 0 {
        stats.with_lost_len += 1;
    }
    if allowed.len() > 1 {
        stats.nondurable_pending_at_crash += 1;
    }
    // nested: crash inside the recovery run, then recover that image instead
    for (nidx, nchoice) in &pt.nested {
        let rec = recover_and_check(cfg, cache, image.clone(), versions, &allowed, pt.post_seed, true, false);
        if !rec.viols.is_empty() {
            return rec.viols;
        }
        // only the recovery itself (up to the first OpenEnd) is crashed into
        let end = rec
            .recovery_log
            .iter()
            .position(|o| matches!(o, DOp::Marker(Marker::OpenEnd)))
            .unwrap_or(rec.recovery_log.len());
        if end == 0 {
            break;
        }
        let k = nidx % (end + 1);
        let mut w2 = CrashWalker::new(rec.recovery_base.clone(), &rec.recovery_log);
        w2.advance_to(k);
        let (img2, _) = w2.image(nchoice);
        image = img2;
        stats.nested_images += 1;
    }
    let rec = recover_and_check(cfg, cache, image, versions, &allowed, pt.post_seed, false, post_workload);
    if post_workload {
        stats.post_workloads += 1;
    }
    if let Some(v) = rec.to_version {
        if Some(&v) == allowed.iter().next_back() {
            stats.recovered_to_newest += 1;
        } else {
            stats.recovered_to_older += 1;
        }
    }
    rec.viols
}

/// Draw crash points for a finished run.
pub fn draw_points(rng: &mut Rng, lifetimes: &[Lifetime], budget: usize) -> Vec<CrashPoint> {
    let mut pts = vec![];
    if lifetimes.is_empty() {
        return pts;
    }
    let total: usize = lifetimes.iter().map(|l| l.log.len()).sum();
    if total == 0 {
        return pts;
    }
    let mut mk = |rng: &mut Rng, li: usize, index: usize| {
        let choice = {
            let mut g = Gen::new(rng, Profile::base("x"));
            g.crash_choice()
        };
        let nested = if rng.chance(1, 8) {
            let d = rng.range(1, 3) as usize;
            (0..d)
                .map(|_| {
                    let c = {
                        let mut g = Gen::new(rng, Profile::base("x"));
                        g.crash_choice()
                    };
                    (rng.next() as usize % 100_000, c)
                })
                .collect()
        } else {
            vec![]
        };
        CrashPoint { lifetime: li, index, choice, nested, post_seed: rng.next() }
    };
    for (li, life) in lifetimes.iter().enumerate() {
        let share = (budget * life.log.len() / total).max(1);
        let (_, from) = allowed_along(life);
        let from = if life.created { from } else { 0 };
        if life.log.len() < from {
            continue;
        }
        let ip = interesting_points(life, from);
        for _ in 0..share {
            let index = if !ip.is_empty() && rng.chance(3, 4) {
                ip[rng.usize(ip.len())]
            } else {
                from + rng.usize(life.log.len() - from + 1)
            };
            pts.push(mk(rng, li, index));
        }
    }
    // one enumeration burst per run: at a sync chosen at random, every "all pending writes kept
    // but one" image (the family that exposes a page some root needs but no checksum covers)
    // (lifetime, index of the sync, number of writes since the previous sync): syncs that make many
    // writes durable at once have the most ways to lose one, so they are drawn proportionally
    let mut syncs: Vec<(usize, usize, usize)> = vec![];
    for (li, l) in lifetimes.iter().enumerate() {
        let (_, from) = allowed_along(l);
        let from = if l.created { from } else { 0 };
        let mut w = 0usize;
        for (i, op) in l.log.iter().enumerate() {
            match op {
                DOp::Write { .. } => w += 1,
                DOp::Sync { ok: true } => {
                    if i >= from && w >= 2 {
                        syncs.push((li, i, w));
                    }
                    w = 0;
                }
                _ => {}
            }
        }
    }
    let bursts = if budget >= 30 { 2 } else if budget >= 8 { 1 } else { 0 };
    for _ in 0..bursts {
        let total_w: usize = syncs.iter().map(|s| s.2).sum();
        if total_w == 0 {
            break;
        }
        let mut pick = rng.usize(total_w);
        let mut at = 0;
        for (j, s) in syncs.iter().enumerate() {
            if pick < s.2 {
                at = j;
                break;
            }
            pick -= s.2;
        }
        let (li, k, _) = syncs.remove(at);
        let mut w = CrashWalker::new(lifetimes[li].base.clone(), &lifetimes[li].log);
        w.advance_to(k);
        let n = w.pending_count();
        if n >= 2 {
            let start = rng.usize(n);
            for j in 0..n.min(24) {
                let i = (start + j) % n;
                pts.push(CrashPoint { lifetime: li, index: k, choice: CrashChoice::AllBut(i as u32), nested: vec![], post_seed: rng.next() });
            }
        }
    }
    pts.sort_by_key(|p| (p.lifetime, p.index));
    pts
}
