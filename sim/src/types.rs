//! Bridging between the plan's dynamic key/value descriptions and redb's statically typed API.

use crate::plan::{gen_bytes, KeyVal, Val};

/// Observed value (what came back from redb)
#[derive(Clone, Debug, PartialEq, Eq, PartialOrd, Ord)]
pub enum OV {
    B(Vec<u8>),
    U(u64),
}

pub fn expect_ov(v: Val, bytes: bool) -> OV {
    if bytes { OV::B(gen_bytes(v)) } else { OV::U(v.id) }
}

pub trait Kk: redb::Key + 'static {
    fn arg<'a>(k: &'a KeyVal) -> Self::SelfType<'a>;
    fn out(v: Self::SelfType<'_>) -> KeyVal;
}

impl Kk for u64 {
    fn arg<'a>(k: &'a KeyVal) -> u64 {
        match k {
            KeyVal::U(u) => *u,
            _ => panic!("key type mismatch in plan"),
        }
    }
    fn out(v: u64) -> KeyVal {
        KeyVal::U(v)
    }
}

impl Kk for &'static str {
    fn arg<'a>(k: &'a KeyVal) -> &'a str {
        match k {
            KeyVal::S(s) => s.as_str(),
            _ => panic!("key type mismatch in plan"),
        }
    }
    fn out(v: &str) -> KeyVal {
        KeyVal::S(v.to_string())
    }
}

impl Kk for &'static [u8] {
    fn arg<'a>(k: &'a KeyVal) -> &'a [u8] {
        match k {
            KeyVal::B(b) => b.as_slice(),
            _ => panic!("key type mismatch in plan"),
        }
    }
    fn out(v: &[u8]) -> KeyVal {
        KeyVal::B(v.to_vec())
    }
}

pub trait Vv: redb::Value + 'static {
    const BYTES: bool;
    fn arg<'a>(v: &'a OV) -> Self::SelfType<'a>;
    fn out(v: Self::SelfType<'_>) -> OV;
}

impl Vv for u64 {
    const BYTES: bool = false;
    fn arg<'a>(v: &'a OV) -> u64 {
        match v {
            OV::U(u) => *u,
            _ => panic!("value type mismatch in plan"),
        }
    }
    fn out(v: u64) -> OV {
        OV::U(v)
    }
}

impl Vv for &'static [u8] {
    const BYTES: bool = true;
    fn arg<'a>(v: &'a OV) -> &'a [u8] {
        match v {
            OV::B(b) => b.as_slice(),
            _ => panic!("value type mismatch in plan"),
        }
    }
    fn out(v: &[u8]) -> OV {
        OV::B(v.to_vec())
    }
}
