//! Driver: seeded exploration over many runs, aggregation, minimisation, replay, evidence.

use crate::crash::{draw_points, eval_point, CrashPoint, CrashStats};
use crate::exec::{Exec, ExecStats, Mode, Viol};
use crate::plan::{Plan, Step};
use crate::plangen::{Gen, Profile};
use crate::rng::{mix, Rng};
use serde::{Deserialize, Serialize};
use serde_json::json;
use std::collections::BTreeSet;
use std::panic::{catch_unwind, AssertUnwindSafe};
use std::sync::atomic::{AtomicBool, AtomicU64, Ordering};
use std::sync::Mutex;
use std::time::Instant;

pub const DEFAULT_SEED: u64 = 20260922;

thread_local! {
    pub static LAST_PANIC: std::cell::RefCell<String> = const { std::cell::RefCell::new(String::new()) };
}

pub fn last_panic() -> String {
    LAST_PANIC.with(|p| p.borrow().clone())
}

#[derive(Clone, Debug, Serialize, Deserialize)]
pub struct Replay {
    pub property: String,
    pub engine: String,
    pub seed: u64,
    pub run: u64,
    pub plan: Plan,
    #[serde(default)]
    pub extra: Extra,
    #[serde(default)]
    pub images: usize,
    pub expect: Viol,
}

#[derive(Clone, Debug, Serialize, Deserialize, PartialEq, Default)]
pub enum Extra {
    #[default]
    None,
    Crash(CrashPoint),
    Fault(FaultCase),
    Corrupt(crate::corrupt::Alteration),
}

#[derive(Clone, Debug, Serialize, Deserialize, PartialEq)]
pub struct FaultCase {
    pub fault: crate::disk::Fault,
    /// state of the surviving storage when the database is dropped afterwards
    pub choice: crate::disk::CrashChoice,
}

#[derive(Clone, Copy, PartialEq, Eq, Debug)]
pub enum Engine {
    Conf,
    Crash,
    Fault,
    Corrupt,
    Compat,
}

#[derive(Default, Clone, Serialize)]
pub struct Agg {
    pub runs: u64,
    pub nontrivial: u64,
    pub exec: ExecStats,
    pub disk: crate::disk::Stats,
    pub crash: CrashStats,
    pub lifetimes: u64,
    pub backend_calls: u64,
}

pub fn add_exec(a: &mut ExecStats, b: &ExecStats) {
    a.api_calls += b.api_calls;
    a.txns += b.txns;
    a.commits += b.commits;
    a.nondurable_commits += b.nondurable_commits;
    a.two_phase += b.two_phase;
    a.quick_repair += b.quick_repair;
    a.aborts += b.aborts;
    a.poisoned_commits += b.poisoned_commits;
    a.reader_checks += b.reader_checks;
    a.iter_advances += b.iter_advances;
    a.guard_rechecks += b.guard_rechecks;
    a.sp_created += b.sp_created;
    a.sp_restored += b.sp_restored;
    a.reopens += b.reopens;
    a.crashes += b.crashes;
    a.compactions += b.compactions;
    a.compactions_moved += b.compactions_moved;
    a.integrity_checks += b.integrity_checks;
    a.audits += b.audits;
    a.max_height = a.max_height.max(b.max_height);
    a.multi_region += b.multi_region;
    a.io_errors_reported += b.io_errors_reported;
    a.refused_after_error += b.refused_after_error;
    a.steps_skipped += b.steps_skipped;
    a.deep_checks += b.deep_checks;
    a.syncs_decoded += b.syncs_decoded;
    a.pages_protected += b.pages_protected;
    a.secondary_selected_at_sync += b.secondary_selected_at_sync;
    a.decoder_max_depth = a.decoder_max_depth.max(b.decoder_max_depth);
    a.multimap_subtrees_seen += b.multimap_subtrees_seen;
    a.ownership_audits += b.ownership_audits;
    for (k, v) in b.probes.iter() {
        *a.probes.entry(k.clone()).or_insert(0) += v;
    }
}

pub fn add_disk(a: &mut crate::disk::Stats, b: &crate::disk::Stats) {
    for i in 0..6 {
        a.calls[i] += b.calls[i];
        a.faults_fired[i] += b.faults_fired[i];
    }
    a.partial_writes += b.partial_writes;
    a.bytes_written += b.bytes_written;
    a.max_len = a.max_len.max(b.max_len);
    a.shrinks += b.shrinks;
    a.grows += b.grows;
}

pub fn add_crash(a: &mut CrashStats, b: &CrashStats) {
    a.images += b.images;
    a.nested_images += b.nested_images;
    a.recovered_to_newest += b.recovered_to_newest;
    a.recovered_to_older += b.recovered_to_older;
    a.nondurable_pending_at_crash += b.nondurable_pending_at_crash;
    a.with_torn_write += b.with_torn_write;
    a.with_lost_len += b.with_lost_len;
    a.pending_total += b.pending_total;
    a.post_workloads += b.post_workloads;
    a.corrupt_reported_at_open += b.corrupt_reported_at_open;
    a.corrupt_reported_by_integrity_err += b.corrupt_reported_by_integrity_err;
    a.corrupt_reported_by_panic += b.corrupt_reported_by_panic;
    a.corrupt_repaired_ok_false += b.corrupt_repaired_ok_false;
    a.corrupt_harmless_ok_true += b.corrupt_harmless_ok_true;
}

pub struct RunOut {
    pub viol: Option<(Viol, Extra)>,
    pub exec: ExecStats,
    pub disk: crate::disk::Stats,
    pub crash: CrashStats,
    pub hash: u64,
    pub lifetimes: u64,
    pub harness_panic: bool,
    pub known: Vec<String>,
}

pub struct Opts {
    pub prop: String,
    pub engine: Engine,
    pub seed: u64,
    pub runs: u64,
    pub max_secs: u64,
    pub threads: usize,
    pub images_per_run: usize,
    pub tier: String,
    /// each worker records the run index it is working on here (so that a process abort can be attributed)
    pub status_dir: Option<String>,
    pub only: Option<u64>,
}

pub fn plan_for(seed: u64, run: u64, prop: &str) -> Plan {
    let mut rng = Rng::new(mix(seed, run));
    let prof = Profile::for_prop(prop);
    Gen::new(&mut rng, prof).plan()
}

/// Execute one plan under an engine. `only`: evaluate just this crash point (replay).
/// One run. Known findings met anywhere inside it (also by the executors that recover crash
/// images) are collected per thread and returned with the run.
pub fn execute(plan: &Plan, engine: Engine, crash_seed: u64, images: usize, only: Option<&Extra>) -> RunOut {
    crate::exec::KNOWN_SEEN.with(|k| k.borrow_mut().clear());
    let mut out = execute_inner(plan, engine, crash_seed, images, only);
    crate::exec::KNOWN_SEEN.with(|k| {
        for line in k.borrow_mut().drain(..) {
            if !out.known.contains(&line) {
                out.known.push(line);
            }
        }
    });
    out
}

fn execute_inner(plan: &Plan, engine: Engine, crash_seed: u64, images: usize, only: Option<&Extra>) -> RunOut {
    if engine == Engine::Fault {
        return execute_fault(plan, crash_seed, images, only);
    }
    if engine == Engine::Corrupt {
        return crate::corrupt::execute_corrupt(plan, crash_seed, images, only);
    }
    if engine == Engine::Compat {
        return crate::compat::execute_compat(plan, crash_seed, images, only);
    }
    let mut ex = Exec::new(plan.cfg.clone(), Mode::Strict);
    ex.keep_lifetimes = engine == Engine::Crash;
    let r = catch_unwind(AssertUnwindSafe(|| {
        ex.run(plan);
        ex.finish();
    }));
    let mut out = RunOut {
        viol: None,
        exec: ex.stats.clone(),
        disk: ex.disk_stats.clone(),
        crash: CrashStats::default(),
        hash: ex.oplog_hash,
        lifetimes: ex.lifetimes.len() as u64,
        harness_panic: false,
        known: ex.known.clone(),
    };
    if r.is_err() {
        out.harness_panic = true;
        out.viol = Some((Viol { prop: ex.prop_under_check.clone(), tag: "panic".into(), detail: format!("panic escaped during the run: {}", last_panic()) }, Extra::None));
        return out;
    }
    if let Some(v) = ex.viols.first() {
        out.viol = Some((v.clone(), Extra::None));
        return out;
    }
    if engine == Engine::Crash {
        let pts: Vec<CrashPoint> = match only {
            Some(Extra::Crash(p)) => vec![p.clone()],
            Some(_) => vec![],
            None => {
                let mut rng = Rng::new(crash_seed);
                draw_points(&mut rng, &ex.lifetimes, images)
            }
        };
        let cache = plan.cfg.cache;
        for (n, pt) in pts.iter().enumerate() {
            let post = only.is_some() || n % 4 == 0;
            let v = eval_point(&plan.cfg, cache, &ex.lifetimes, &ex.versions, pt, &mut out.crash, post);
            if let Some(v) = v.first() {
                out.viol = Some((v.clone(), Extra::Crash(pt.clone())));
                break;
            }
        }
    }
    out
}

fn same_class(a: &Viol, b: &Viol) -> bool {
    a.prop == b.prop && a.tag == b.tag
}

/// Shrink a failing plan while the same violation class persists.
pub fn minimise(rep: &Replay, engine: Engine, images: usize, max_secs: u64) -> Replay {
    let start = Instant::now();
    let mut best = rep.clone();
    // the driver sets this when a minimisation attempt killed the process (a shrunk variant can
    // turn a caught panic into one that cannot unwind): report the run as found
    if std::env::var_os("VERIF_NO_MIN").is_some() {
        return best;
    }
    let check = |plan: &Plan, ex: &Extra| -> Option<(Viol, Extra)> {
        // first try the same crash point / fault case, then a fresh search
        if engine != Engine::Conf {
            if *ex != Extra::None {
                let o = execute(plan, engine, 0, 0, Some(ex));
                if let Some((v, e2)) = o.viol
                    && same_class(&v, &rep.expect)
                {
                    return Some((v, if e2 == Extra::None { ex.clone() } else { e2 }));
                }
            }
            let o = execute(plan, engine, mix(rep.seed, rep.run) ^ 0x5eed, images, None);
            match o.viol {
                Some((v, e2)) if same_class(&v, &rep.expect) => Some((v, e2)),
                _ => None,
            }
        } else {
            let o = execute(plan, engine, 0, 0, None);
            match o.viol {
                Some((v, e2)) if same_class(&v, &rep.expect) => Some((v, e2)),
                _ => None,
            }
        }
    };
    let mut progress = true;
    while progress && start.elapsed().as_secs() < max_secs {
        progress = false;
        // 1. remove whole steps (from the end: later steps are most often irrelevant)
        let mut i = best.plan.steps.len();
        while i > 0 && start.elapsed().as_secs() < max_secs {
            i -= 1;
            let mut cand = best.plan.clone();
            cand.steps.remove(i);
            if let Some((v, e)) = check(&cand, &best.extra) {
                best.plan = cand;
                best.expect = v;
                best.extra = e;
                progress = true;
            }
        }
        // 2. remove ops inside transactions
        for si in 0..best.plan.steps.len() {
            let nops = match &best.plan.steps[si] {
                Step::Txn(t) | Step::DropDbDuringTxn { txn: t } => t.ops.len(),
                _ => 0,
            };
            let mut oi = nops;
            while oi > 0 && start.elapsed().as_secs() < max_secs {
                oi -= 1;
                let mut cand = best.plan.clone();
                match &mut cand.steps[si] {
                    Step::Txn(t) | Step::DropDbDuringTxn { txn: t } => {
                        if oi < t.ops.len() {
                            t.ops.remove(oi);
                        }
                    }
                    _ => {}
                }
                if let Some((v, e)) = check(&cand, &best.extra) {
                    best.plan = cand;
                    best.expect = v;
                    best.extra = e;
                    progress = true;
                }
            }
        }
        // 3. simplify the crash choice
        let simpler_choices = [crate::disk::CrashChoice::AllKept, crate::disk::CrashChoice::NoneKept];
        match best.extra.clone() {
            Extra::Crash(p) => {
                let mut cands = vec![];
                for c in simpler_choices.iter() {
                    if p.choice == *c {
                        break;
                    }
                    let mut p2 = p.clone();
                    p2.choice = c.clone();
                    p2.nested.clear();
                    cands.push(p2);
                }
                if !p.nested.is_empty() {
                    let mut p2 = p.clone();
                    p2.nested.clear();
                    cands.push(p2);
                }
                for p2 in cands {
                    let e2 = Extra::Crash(p2);
                    let o = execute(&best.plan, engine, 0, 0, Some(&e2));
                    if let Some((v, _)) = o.viol
                        && same_class(&v, &rep.expect)
                    {
                        best.extra = e2;
                        best.expect = v;
                        progress = true;
                        break;
                    }
                }
            }
            Extra::Fault(f) => {
                for c in simpler_choices.iter() {
                    if f.choice == *c {
                        break;
                    }
                    let mut f2 = f.clone();
                    f2.choice = c.clone();
                    let e2 = Extra::Fault(f2);
                    let o = execute(&best.plan, engine, 0, 0, Some(&e2));
                    if let Some((v, _)) = o.viol
                        && same_class(&v, &rep.expect)
                    {
                        best.extra = e2;
                        best.expect = v;
                        progress = true;
                        break;
                    }
                }
            }
            Extra::None | Extra::Corrupt(_) => {}
        }
    }
    best
}

pub fn engine_of(name: &str) -> Engine {
    match name {
        "crash" => Engine::Crash,
        "fault" => Engine::Fault,
        "corrupt" => Engine::Corrupt,
        "compat" => Engine::Compat,
        _ => Engine::Conf,
    }
}

pub fn engine_name(e: Engine) -> &'static str {
    match e {
        Engine::Conf => "conf",
        Engine::Crash => "crash",
        Engine::Fault => "fault",
        Engine::Corrupt => "corrupt",
        Engine::Compat => "compat",
    }
}

pub fn replay_file(path: &str) -> i32 {
    let Ok(text) = std::fs::read_to_string(path) else {
        eprintln!("cannot read {path}");
        return 2;
    };
    let rep: Replay = match serde_json::from_str(&text) {
        Ok(r) => r,
        Err(e) => {
            eprintln!("bad replay file: {e}");
            return 2;
        }
    };
    let engine = engine_of(&rep.engine);
    crate::exec::PROP_UNDER_CHECK.with(|p| *p.borrow_mut() = rep.property.clone());
    let only = if rep.extra == Extra::None { None } else { Some(&rep.extra) };
    let (cs, im) = if only.is_none() { (mix(rep.seed, rep.run) ^ 0x5eed, rep.images) } else { (0, 0) };
    let o = execute(&rep.plan, engine, cs, im, only);
    for k in &o.known {
        println!("{k}");
    }
    match o.viol {
        Some((v, _)) => {
            println!("replayed: property={} tag={} detail={}", v.prop, v.tag, v.detail);
            println!("VIOLATION property={} replay={}", v.prop, path);
            1
        }
        None => {
            println!("replay of {path}: no violation");
            0
        }
    }
}

/// C08: for one history, make the k-th backend call after creation fail (once or for good, with
/// an optional partially applied write), for every k; then judge what survived.
pub fn execute_fault(plan: &Plan, seed: u64, max_cases: usize, only: Option<&Extra>) -> RunOut {
    use crate::disk::{CrashChoice, CrashWalker, Fault};
    let mut out = RunOut {
        viol: None,
        exec: ExecStats::default(),
        disk: Default::default(),
        crash: CrashStats::default(),
        hash: 0,
        lifetimes: 0,
        harness_panic: false,
        known: vec![],
    };
    // baseline: count the backend calls of the fault-free history
    let mut base = Exec::new(plan.cfg.clone(), Mode::Strict);
    base.fault_plan = Some(vec![]);
    let r = catch_unwind(AssertUnwindSafe(|| {
        base.run(plan);
        base.finish();
    }));
    out.known.extend(base.known.iter().cloned());
    if r.is_err() || !base.viols.is_empty() {
        if let Some(v) = base.viols.first() {
            out.viol = Some((v.clone(), Extra::None));
        } else {
            out.viol = Some((Viol { prop: "C08".into(), tag: "panic".into(), detail: "panic in the fault-free baseline".into() }, Extra::None));
        }
        add_exec(&mut out.exec, &base.stats);
        return out;
    }
    let n = base.calls_counted;
    out.hash = base.oplog_hash;
    add_exec(&mut out.exec, &base.stats);
    add_disk(&mut out.disk, &base.disk_stats);
    let mut rng = Rng::new(seed);
    let cases: Vec<FaultCase> = match only {
        Some(Extra::Fault(f)) => vec![f.clone()],
        Some(_) => vec![],
        None => {
            let mut ks: Vec<u64> = (0..n).collect();
            if ks.len() > max_cases {
                // keep an evenly spread sample plus random ones
                let mut pick = std::collections::BTreeSet::new();
                while pick.len() < max_cases {
                    pick.insert(rng.below(n));
                }
                ks = pick.into_iter().collect();
            }
            let mut v = vec![];
            for k in ks {
                let partial = if rng.chance(1, 3) { rng.below(1000) as u16 } else { 0 };
                let choice = match rng.below(4) {
                    0 => CrashChoice::AllKept,
                    1 => CrashChoice::NoneKept,
                    _ => CrashChoice::Random(rng.next()),
                };
                v.push(FaultCase { fault: Fault { index: k, permanent: rng.chance(1, 2), partial_permille: partial }, choice });
            }
            v
        }
    };
    for case in cases {
        let mut ex = Exec::new(plan.cfg.clone(), Mode::Strict);
        ex.keep_lifetimes = true;
        ex.fault_plan = Some(vec![case.fault.clone()]);
        let r = catch_unwind(AssertUnwindSafe(|| {
            ex.run(plan);
            ex.finish();
        }));
        out.crash.images += 1;
        add_disk(&mut out.disk, &ex.disk_stats);
        out.exec.io_errors_reported += ex.stats.io_errors_reported;
        out.exec.refused_after_error += ex.stats.refused_after_error;
        out.known.extend(ex.known.iter().cloned());
        if r.is_err() {
            out.viol = Some((Viol { prop: "C08".into(), tag: "panic".into(), detail: format!("panic escaped with fault {:?}", case.fault) }, Extra::Fault(case)));
            return out;
        }
        if let Some(v) = ex.viols.first() {
            out.viol = Some((v.clone(), Extra::Fault(case)));
            return out;
        }
        // the surviving storage, in a crash state, must reopen to an admissible commit point
        let Some(life) = ex.lifetimes.last() else { continue };
        let mut w = CrashWalker::new(life.base.clone(), &life.log);
        w.advance_to(life.log.len());
        let (image, _) = w.image(&case.choice);
        let rec = crate::crash::recover_and_check(&plan.cfg, plan.cfg.cache, image, &ex.versions, &ex.allowed, seed, false, false);
        if let Some(v) = rec.viols.first() {
            let mut v = v.clone();
            if v.prop == "C01" {
                v.prop = "C08".into();
            }
            out.viol = Some((v, Extra::Fault(case)));
            return out;
        }
    }
    out
}

/// known findings file: /verif/known_findings.json (read-only at run time)
pub fn known_findings() -> &'static Vec<serde_json::Value> {
    static K: std::sync::OnceLock<Vec<serde_json::Value>> = std::sync::OnceLock::new();
    K.get_or_init(|| {
        let p = std::env::var("VERIF_KNOWN").unwrap_or("/verif/known_findings.json".into());
        std::fs::read_to_string(p)
            .ok()
            .and_then(|t| serde_json::from_str::<serde_json::Value>(&t).ok())
            .and_then(|v| v.get("findings").and_then(|f| f.as_array().cloned()))
            .unwrap_or_default()
    })
}

pub fn known_finding(v: &Viol) -> Option<String> {
    for f in known_findings() {
        let prop = f.get("property").and_then(|x| x.as_str()).unwrap_or("");
        let tag = f.get("tag").and_then(|x| x.as_str()).unwrap_or("");
        let needle = f.get("detail_contains").and_then(|x| x.as_str()).unwrap_or("");
        if prop == v.prop && tag == v.tag && (needle.is_empty() || v.detail.contains(needle)) {
            return Some(f.get("what").and_then(|x| x.as_str()).unwrap_or("known finding").to_string());
        }
    }
    None
}

pub fn explore(o: &Opts) -> i32 {
    let start = Instant::now();
    crate::exec::PROP_UNDER_CHECK.with(|p| *p.borrow_mut() = o.prop.clone());
    let next = AtomicU64::new(0);
    let stop = AtomicBool::new(false);
    let agg = Mutex::new(Agg::default());
    let hashes = Mutex::new(BTreeSet::<u64>::new());
    let found = Mutex::new(Vec::<(u64, Viol, Extra)>::new());
    let known = Mutex::new(BTreeSet::<String>::new());
    let samples = Mutex::new(Vec::<serde_json::Value>::new());
    if let Some(only) = o.only {
        next.store(only, Ordering::Relaxed);
    }
    let last = o.only.map_or(o.runs, |x| x + 1);
    let nthreads = if o.only.is_some() { 1 } else { o.threads };
    if let Some(d) = &o.status_dir {
        let _ = std::fs::create_dir_all(d);
    }
    let tid = AtomicU64::new(0);
    std::thread::scope(|s| {
        for _ in 0..nthreads {
            s.spawn(|| {
              let my = tid.fetch_add(1, Ordering::Relaxed);
              crate::exec::PROP_UNDER_CHECK.with(|p| *p.borrow_mut() = o.prop.clone());
              let status = o.status_dir.as_ref().and_then(|d| std::fs::File::create(format!("{d}/t{my}")).ok());
              loop {
                if stop.load(Ordering::Relaxed) || start.elapsed().as_secs() >= o.max_secs {
                    break;
                }
                let i = next.fetch_add(1, Ordering::Relaxed);
                if i >= last {
                    break;
                }
                if let Some(f) = &status {
                    use std::os::unix::fs::FileExt;
                    let _ = f.write_all_at(format!("{i:<20}").as_bytes(), 0);
                }
                let plan = plan_for(o.seed, i, &o.prop);
                let out = execute(&plan, o.engine, mix(o.seed, i) ^ 0x5eed, o.images_per_run, None);
                {
                    let mut a = agg.lock().unwrap();
                    a.runs += 1;
                    add_exec(&mut a.exec, &out.exec);
                    add_disk(&mut a.disk, &out.disk);
                    add_crash(&mut a.crash, &out.crash);
                    a.lifetimes += out.lifetimes;
                    if out.exec.commits > 0 {
                        a.nontrivial += 1;
                    }
                }
                if out.exec.commits > 0 {
                    hashes.lock().unwrap().insert(out.hash);
                }
                if i < 2 {
                    let mut sm = samples.lock().unwrap();
                    let mut p = plan.clone();
                    p.steps.truncate(3);
                    sm.push(json!({"run": i, "cfg": p.cfg, "first_steps": p.steps, "total_steps": plan.steps.len()}));
                }
                for k in &out.known {
                    known.lock().unwrap().insert(k.clone());
                }
                if let Some((v, pt)) = out.viol {
                    if let Some(k) = known_finding(&v) {
                        known.lock().unwrap().insert(format!("KNOWN-FINDING: property={} {}", v.prop, k));
                    } else {
                        found.lock().unwrap().push((i, v, pt));
                        stop.store(true, Ordering::Relaxed);
                    }
                }
              }
              if let Some(f) = &status {
                  use std::os::unix::fs::FileExt;
                  let _ = f.write_all_at(format!("{:<20}", "done").as_bytes(), 0);
              }
            });
        }
    });
    let agg = agg.into_inner().unwrap();
    let distinct = hashes.into_inner().unwrap().len() as u64;
    let mut found = found.into_inner().unwrap();
    found.sort_by_key(|f| f.0);
    for k in known.into_inner().unwrap() {
        println!("{k}");
    }
    let mut code = 0;
    let mut violations = 0;
    if let Some((i, v, pt)) = found.first().cloned() {
        violations = 1;
        let rep = Replay { property: v.prop.clone(), engine: engine_name(o.engine).into(), seed: o.seed, run: i, plan: plan_for(o.seed, i, &o.prop), extra: pt, images: o.images_per_run, expect: v.clone() };
        let min_secs = if o.tier == "thorough" { 600 } else { 60 };
        let min = minimise(&rep, o.engine, o.images_per_run.max(50), min_secs);
        let dir = std::env::var("VERIF_REPLAY_DIR").unwrap_or("/verif/replays".into());
        let _ = std::fs::create_dir_all(&dir);
        let h = crate::rng::fnv(serde_json::to_string(&min.plan).unwrap().as_bytes());
        let path = format!("{dir}/{}-{}-{:08x}.json", min.expect.prop, o.seed, h as u32);
        std::fs::write(&path, serde_json::to_string_pretty(&min).unwrap()).unwrap();
        // verify that the replay reproduces in this process (the driver re-checks in a fresh one)
        let again = if min.extra == Extra::None {
            execute(&min.plan, o.engine, mix(min.seed, min.run) ^ 0x5eed, min.images, None)
        } else {
            execute(&min.plan, o.engine, 0, 0, Some(&min.extra))
        };
        let ok = again.viol.as_ref().is_some_and(|(v2, _)| same_class(v2, &min.expect));
        println!("violation: run={i} property={} tag={} detail={}", min.expect.prop, min.expect.tag, min.expect.detail);
        if ok {
            println!("VIOLATION property={} replay={}", min.expect.prop, path);
            code = 1;
        } else {
            println!("HARNESS-ERROR: minimised replay did not reproduce ({path})");
            code = 2;
        }
    }
    let wall = start.elapsed().as_secs_f64();
    let kinds = ["len", "read", "write", "set_len", "sync_data", "close"];
    let calls: serde_json::Map<String, serde_json::Value> = kinds.iter().enumerate().map(|(i, k)| (k.to_string(), json!(agg.disk.calls[i]))).collect();
    let faults: serde_json::Map<String, serde_json::Value> = kinds.iter().enumerate().map(|(i, k)| (k.to_string(), json!(agg.disk.faults_fired[i]))).collect();
    let backend_calls: u64 = agg.disk.calls.iter().sum();
    let ev = json!({
        "property_id": o.prop,
        "tier": o.tier,
        "seed": o.seed,
        "level": if o.engine == Engine::Fault || o.engine == Engine::Corrupt { "fault_enumeration" } else { "exploration" },
        "wall_s": wall,
        "violations": violations,
        "coverage": {
            "evaluations": agg.runs + agg.crash.images,
            "distinct_nontrivial": distinct,
            "rule": "one evaluation = one simulated run (a plan drawn from hash(seed, run index) executed against real redb on SimDisk and against the reference model) or one crash image recovered; a run is non-trivial if it committed at least one transaction; distinct = number of distinct backend op-log hashes (sequence of every read/write/set_len/sync with offsets and written bytes) among non-trivial runs",
            "samples": samples.into_inner().unwrap(),
            "runs": agg.runs,
            "runs_per_hour": if wall > 0.0 { (agg.runs as f64 / wall * 3600.0) as u64 } else { 0 },
            "simulated_time_steps": {"api_calls": agg.exec.api_calls, "backend_calls": backend_calls},
            "backend_calls_by_kind": calls,
            "faults_fired_by_kind": faults,
            "crash": agg.crash,
            "exec": agg.exec,
            "disk": {"partial_writes": agg.disk.partial_writes, "bytes_written": agg.disk.bytes_written, "max_file_len": agg.disk.max_len, "shrinks": agg.disk.shrinks, "grows": agg.disk.grows},
            "process_lifetimes": agg.lifetimes,
            "engine": format!("{:?}", o.engine),
            "components": {"real": ["redb (all of src/, rebuilt from /repo)"], "stub": ["StorageBackend -> SimDisk"], "harness": ["reference model", "plan generator", "crash-image builder"]},
        },
        "assumptions": [
            "crash model: every subset of un-synced writes, byte-granular tears, set_len persisted or not; bytes outside a written range never change (docs/design.md media assumptions)",
            "SimDisk replaces the file system; FileBackend and OS locking are outside the claim",
            "sampling, not enumeration"
        ]
    });
    let evdir = std::env::var("VERIF_EVIDENCE_DIR").unwrap_or("/verif/evidence".into());
    let _ = std::fs::create_dir_all(&evdir);
    std::fs::write(format!("{evdir}/{}.json", o.prop), serde_json::to_string_pretty(&ev).unwrap()).unwrap();
    println!("{}: runs={} images={} distinct={} wall={:.1}s exit={}", o.prop, agg.runs, agg.crash.images, distinct, wall, code);
    code
}

pub fn cli(args: &[String]) -> i32 {
    // glibc serves every ~1 MiB image buffer with mmap/munmap by default, which serialises the
    // worker threads in the kernel; keep such buffers on the heap instead (25x throughput).
    if std::env::var_os("MALLOC_MMAP_THRESHOLD_").is_none() {
        use std::os::unix::process::CommandExt;
        let exe = std::env::current_exe().unwrap();
        let err = std::process::Command::new(exe)
            .args(args)
            .env("MALLOC_MMAP_THRESHOLD_", "33554432")
            .env("MALLOC_TRIM_THRESHOLD_", "268435456")
            .env("MALLOC_TOP_PAD_", "67108864")
            .exec();
        eprintln!("re-exec failed: {err}");
        return 2;
    }
    std::panic::set_hook(Box::new(|info| {
        let msg = info.to_string();
        LAST_PANIC.with(|p| *p.borrow_mut() = msg.chars().take(400).collect());
    }));
    let get = |k: &str| args.iter().position(|a| a == k).and_then(|i| args.get(i + 1)).cloned();
    match args.first().map(|s| s.as_str()) {
        Some("replay") => replay_file(args.get(1).map(|s| s.as_str()).unwrap_or("")),
        Some("explore") => {
            let prop = get("--prop").unwrap_or("C04".into());
            let tier = get("--tier").unwrap_or("quick".into());
            let seed = std::env::var("VERIF_SEED").ok().and_then(|s| s.parse().ok()).unwrap_or(DEFAULT_SEED);
            let engine = engine_of(get("--engine").as_deref().unwrap_or("conf"));
            let o = Opts {
                prop,
                engine,
                seed,
                runs: get("--runs").and_then(|s| s.parse().ok()).unwrap_or(1000),
                max_secs: get("--max-secs").and_then(|s| s.parse().ok()).unwrap_or(120),
                threads: get("--threads").and_then(|s| s.parse().ok()).unwrap_or(16),
                images_per_run: get("--images").and_then(|s| s.parse().ok()).unwrap_or(60),
                tier,
                status_dir: get("--status-dir"),
                only: get("--only").and_then(|s| s.parse().ok()),
            };
            explore(&o)
        }
        Some("determinism") => {
            // every plan executed twice (here on different worker threads) must produce the same
            // backend op log, the same verdict and the same counters
            let n: u64 = get("--runs").and_then(|s| s.parse().ok()).unwrap_or(300);
            let seed = std::env::var("VERIF_SEED").ok().and_then(|s| s.parse().ok()).unwrap_or(DEFAULT_SEED);
            let bad = AtomicU64::new(0);
            let next = AtomicU64::new(0);
            let props = ["C01", "C02", "C06", "C07", "C08", "C09", "C13", "C17", "C20"];
            let workers: usize = get("--threads").and_then(|s| s.parse().ok()).unwrap_or(8);
            std::thread::scope(|sc| {
                for _ in 0..workers {
                    sc.spawn(|| loop {
                        let i = next.fetch_add(1, Ordering::Relaxed);
                        if i >= n * props.len() as u64 {
                            break;
                        }
                        let prop = props[(i % props.len() as u64) as usize];
                        let engine = match prop {
                            "C01" | "C07" | "C13" => Engine::Crash,
                            "C08" => Engine::Fault,
                            _ => Engine::Conf,
                        };
                        let plan = plan_for(seed, i, prop);
                        let a = execute(&plan, engine, mix(seed, i), 12, None);
                        let b = std::thread::spawn({
                            let plan = plan.clone();
                            move || execute(&plan, engine, mix(seed, i), 12, None)
                        })
                        .join()
                        .unwrap();
                        let va = a.viol.as_ref().map(|v| (v.0.clone(), v.1.clone()));
                        let vb = b.viol.as_ref().map(|v| (v.0.clone(), v.1.clone()));
                        // every counter, every reach probe, every crash statistic must agree as well
                        let ca = (serde_json::to_string(&a.exec).unwrap(), serde_json::to_string(&a.crash).unwrap());
                        let cb = (serde_json::to_string(&b.exec).unwrap(), serde_json::to_string(&b.crash).unwrap());
                        if a.hash != b.hash || va != vb || ca != cb {
                            println!("NONDETERMINISM prop={prop} run={i}: oplog {:x}/{:x}", a.hash, b.hash);
                            bad.fetch_add(1, Ordering::Relaxed);
                        }
                    });
                }
            });
            let bad = bad.load(Ordering::Relaxed);
            println!("determinism: {} plans x2, {bad} divergences", n * props.len() as u64);
            if bad > 0 { 2 } else { 0 }
        }
        Some("mkreplay") => {
            // a replay file for a run that killed the process (abort inside redb): plan only
            let prop = get("--prop").unwrap_or("C04".into());
            let seed = std::env::var("VERIF_SEED").ok().and_then(|s| s.parse().ok()).unwrap_or(DEFAULT_SEED);
            let run: u64 = get("--run").and_then(|s| s.parse().ok()).unwrap_or(0);
            let out = get("--out").unwrap_or("/tmp/replay.json".into());
            let rep = Replay {
                property: prop.clone(),
                engine: get("--engine").unwrap_or("conf".into()),
                seed,
                run,
                plan: plan_for(seed, run, &prop),
                extra: Extra::None,
                images: get("--images").and_then(|s| s.parse().ok()).unwrap_or(60),
                expect: Viol { prop, tag: "process-abort".into(), detail: get("--detail").unwrap_or_default() },
            };
            std::fs::write(&out, serde_json::to_string_pretty(&rep).unwrap()).unwrap();
            0
        }
        Some("dumpimage") => {
            // writes the final (cleanly closed) storage image of one run plus the model's contents
            let prop = get("--prop").unwrap_or("C04".into());
            let seed = std::env::var("VERIF_SEED").ok().and_then(|s| s.parse().ok()).unwrap_or(DEFAULT_SEED);
            let run: u64 = get("--run").and_then(|s| s.parse().ok()).unwrap_or(0);
            let out = get("--out").unwrap_or("/tmp/image".into());
            let plan = plan_for(seed, run, &prop);
            let mut ex = Exec::new(plan.cfg.clone(), Mode::Strict);
            ex.run(&plan);
            ex.finish();
            if !ex.viols.is_empty() {
                eprintln!("run had violations: {:?}", ex.viols);
                return 1;
            }
            let img = ex.disk.st().live.clone();
            std::fs::write(format!("{out}.bin"), &img).unwrap();
            let st = ex.state().clone();
            let obs = crate::obs::expected_obs(&st.tables);
            let hex = |b: &[u8]| b.iter().map(|x| format!("{x:02x}")).collect::<String>();
            let kb = |k: &crate::plan::KeyVal| hex(&crate::model::key_bytes(k));
            let mut tables = serde_json::Map::new();
            for (name, t) in obs.iter() {
                let v = match t {
                    crate::obs::ObsTable::T(kind, rows) => json!({"kind": format!("{kind:?}"), "multimap": false,
                        "entries": rows.iter().map(|(k, v)| json!([kb(k), match v { crate::types::OV::B(b) => hex(b), crate::types::OV::U(u) => hex(&u.to_le_bytes()) }])).collect::<Vec<_>>()}),
                    crate::obs::ObsTable::M(kind, rows) => json!({"kind": format!("{kind:?}"), "multimap": true,
                        "entries": rows.iter().map(|(k, vs)| json!([kb(k), vs.iter().map(|v| kb(v)).collect::<Vec<_>>()])).collect::<Vec<_>>()}),
                };
                tables.insert(name.clone(), v);
            }
            let exp = json!({"cfg": plan.cfg, "tables": tables, "persistent_savepoints": st.psp.keys().collect::<Vec<_>>()});
            std::fs::write(format!("{out}.json"), serde_json::to_string_pretty(&exp).unwrap()).unwrap();
            println!("wrote {out}.bin ({} bytes) and {out}.json", img.len());
            0
        }
        Some("dump") => {
            let prop = get("--prop").unwrap_or("C04".into());
            let seed = std::env::var("VERIF_SEED").ok().and_then(|s| s.parse().ok()).unwrap_or(DEFAULT_SEED);
            let run: u64 = get("--run").and_then(|s| s.parse().ok()).unwrap_or(0);
            println!("{}", serde_json::to_string_pretty(&plan_for(seed, run, &prop)).unwrap());
            0
        }
        _ => {
            eprintln!("usage: sim explore --prop Cxx [--engine conf|crash] [--runs N] [--max-secs S] [--threads T] [--images N] [--tier quick|thorough] | sim replay <file> | sim dump --prop Cxx --run N");
            2
        }
    }
}
