//! The reference model: plain BTreeMaps. Holds the full contents of every table, multimap,
//! catalog entry and persistent savepoint per commit point (version).

use crate::plan::{Bd, KeyVal, Kind, Pred, Val};
use crate::rng::fnv;
use std::collections::{BTreeMap, BTreeSet};
use std::ops::Bound;
use std::sync::Arc;

#[derive(Clone, Debug, PartialEq)]
pub enum TableState {
    T(Kind, BTreeMap<KeyVal, Val>),
    M(Kind, BTreeMap<KeyVal, BTreeSet<KeyVal>>),
}

impl TableState {
    pub fn new(kind: Kind) -> Self {
        if kind.is_multimap() {
            TableState::M(kind, BTreeMap::new())
        } else {
            TableState::T(kind, BTreeMap::new())
        }
    }
    pub fn kind(&self) -> Kind {
        match self {
            TableState::T(k, _) | TableState::M(k, _) => *k,
        }
    }
    pub fn map(&self) -> &BTreeMap<KeyVal, Val> {
        match self {
            TableState::T(_, m) => m,
            _ => panic!("not a table"),
        }
    }
    pub fn map_mut(&mut self) -> &mut BTreeMap<KeyVal, Val> {
        match self {
            TableState::T(_, m) => m,
            _ => panic!("not a table"),
        }
    }
    pub fn mm(&self) -> &BTreeMap<KeyVal, BTreeSet<KeyVal>> {
        match self {
            TableState::M(_, m) => m,
            _ => panic!("not a multimap"),
        }
    }
    pub fn mm_mut(&mut self) -> &mut BTreeMap<KeyVal, BTreeSet<KeyVal>> {
        match self {
            TableState::M(_, m) => m,
            _ => panic!("not a multimap"),
        }
    }
    /// number of entries: pairs for a multimap
    pub fn len(&self) -> u64 {
        match self {
            TableState::T(_, m) => m.len() as u64,
            TableState::M(_, m) => m.values().map(|s| s.len() as u64).sum(),
        }
    }
}

pub type Tables = BTreeMap<String, Arc<TableState>>;

#[derive(Clone, Debug, PartialEq)]
pub struct PSp {
    /// global creation sequence number (model-side ordering of all savepoints)
    pub seq: u64,
    pub snap: Arc<Tables>,
}

#[derive(Clone, Debug, PartialEq, Default)]
pub struct DbState {
    pub tables: Tables,
    /// persistent savepoints by redb id
    pub psp: BTreeMap<u64, PSp>,
}

pub fn key_bytes(k: &KeyVal) -> Vec<u8> {
    match k {
        KeyVal::U(u) => u.to_le_bytes().to_vec(),
        KeyVal::S(s) => s.as_bytes().to_vec(),
        KeyVal::B(b) => b.clone(),
    }
}

pub fn pred_selects(p: &Pred, k: &KeyVal) -> bool {
    (fnv(&key_bytes(k)) % p.m as u64) as u32 == p.r % p.m
}

pub fn bounds(lo: &Bd, hi: &Bd) -> Option<(Bound<KeyVal>, Bound<KeyVal>)> {
    // BTreeMap::range panics on inverted or empty-excluded ranges; report them as None
    let ok = match (lo, hi) {
        (Bd::Unb, _) | (_, Bd::Unb) => true,
        (Bd::Exc(a), Bd::Exc(b)) => a < b,
        (Bd::Inc(a), Bd::Inc(b)) | (Bd::Inc(a), Bd::Exc(b)) | (Bd::Exc(a), Bd::Inc(b)) => a <= b,
    };
    if !ok {
        return None;
    }
    let cv = |b: &Bd| match b {
        Bd::Unb => Bound::Unbounded,
        Bd::Inc(k) => Bound::Included(k.clone()),
        Bd::Exc(k) => Bound::Excluded(k.clone()),
    };
    Some((cv(lo), cv(hi)))
}

/// Entries of a table within bounds, in key order. Inverted ranges yield nothing.
pub fn range_of(m: &BTreeMap<KeyVal, Val>, lo: &Bd, hi: &Bd) -> Vec<(KeyVal, Val)> {
    match bounds(lo, hi) {
        None => vec![],
        Some(b) => m.range(b).map(|(k, v)| (k.clone(), *v)).collect(),
    }
}

pub fn mm_range_of(
    m: &BTreeMap<KeyVal, BTreeSet<KeyVal>>,
    lo: &Bd,
    hi: &Bd,
) -> Vec<(KeyVal, Vec<KeyVal>)> {
    match bounds(lo, hi) {
        None => vec![],
        Some(b) => m
            .range(b)
            .map(|(k, v)| (k.clone(), v.iter().cloned().collect()))
            .collect(),
    }
}

/// Consume a sequence from both ends according to `pattern` bits (1 = back), at most `take`.
/// Returns the yielded items in yield order.
pub fn consume<T: Clone>(items: &[T], pattern: u32, take: u32) -> Vec<T> {
    let mut lo = 0usize;
    let mut hi = items.len();
    let mut out = vec![];
    let mut i = 0u32;
    while lo < hi && (out.len() as u32) < take {
        if (pattern >> (i % 32)) & 1 == 1 {
            hi -= 1;
            out.push(items[hi].clone());
        } else {
            out.push(items[lo].clone());
            lo += 1;
        }
        i += 1;
    }
    out
}
