//! Observation of a database's logical contents through its public API, and the same shape
//! computed from the model, so that "state == version v" is decided by plain equality.

use crate::model::{DbState, TableState, Tables};
use crate::plan::{KeyVal, Kind, ALL_KINDS};
use crate::tabs::{open_r, open_w, RHandle, WHandle};
use crate::types::{expect_ov, OV};
use redb::{ReadTransaction, TableError, TableHandle, MultimapTableHandle, WriteTransaction};
use std::collections::BTreeMap;

#[derive(Clone, Debug, PartialEq)]
pub enum ObsTable {
    T(Kind, Vec<(KeyVal, OV)>),
    M(Kind, Vec<(KeyVal, Vec<KeyVal>)>),
}

pub type Obs = BTreeMap<String, ObsTable>;

pub fn expected_table(t: &TableState) -> ObsTable {
    match t {
        TableState::T(k, m) => ObsTable::T(
            *k,
            m.iter().map(|(key, v)| (key.clone(), expect_ov(*v, k.val_is_bytes()))).collect(),
        ),
        TableState::M(k, m) => ObsTable::M(
            *k,
            m.iter().map(|(key, vs)| (key.clone(), vs.iter().cloned().collect())).collect(),
        ),
    }
}

pub fn expected_obs(tables: &Tables) -> Obs {
    tables.iter().map(|(n, t)| (n.clone(), expected_table(t))).collect()
}

fn table_kinds() -> impl Iterator<Item = Kind> {
    ALL_KINDS.into_iter().filter(|k| !k.is_multimap())
}
fn mm_kinds() -> impl Iterator<Item = Kind> {
    ALL_KINDS.into_iter().filter(|k| k.is_multimap())
}

/// Read everything through a read transaction. Kinds are discovered by trial opens (a wrong
/// type is refused with TableTypeMismatch, never reinterpreted).
pub fn observe_read(txn: &ReadTransaction) -> Result<Obs, String> {
    let mut obs = Obs::new();
    let names: Vec<String> = txn
        .list_tables()
        .map_err(|e| format!("list_tables: {e}"))?
        .map(|h| h.name().to_string())
        .collect();
    for name in names {
        let mut found = None;
        for k in table_kinds() {
            match open_r(txn, &name, k) {
                Ok(RHandle::T(t)) => {
                    let d = t.dump().map_err(|e| format!("dump {name}: {e}"))?;
                    let n = t.len().map_err(|e| format!("len {name}: {e}"))?;
                    if n != d.len() as u64 {
                        return Err(format!("table {name}: len() = {n} but iteration yields {}", d.len()));
                    }
                    // a scan never compares routing keys; point lookups do
                    for (key, val) in d.iter() {
                        let g = t.get(key).map_err(|e| format!("get {name}: {e}"))?;
                        if g.as_ref() != Some(val) {
                            return Err(format!("table {name}: get({key:?}) does not return the entry that iteration yields"));
                        }
                    }
                    found = Some(ObsTable::T(k, d));
                    break;
                }
                Ok(_) => unreachable!(),
                Err(TableError::TableTypeMismatch { .. }) | Err(TableError::TypeDefinitionChanged { .. }) => {}
                Err(e) => return Err(format!("open {name}: {e}")),
            }
        }
        match found {
            Some(t) => {
                obs.insert(name, t);
            }
            None => return Err(format!("table {name}: no known type opens it")),
        }
    }
    let names: Vec<String> = txn
        .list_multimap_tables()
        .map_err(|e| format!("list_multimap_tables: {e}"))?
        .map(|h| h.name().to_string())
        .collect();
    for name in names {
        let mut found = None;
        for k in mm_kinds() {
            match open_r(txn, &name, k) {
                Ok(RHandle::M(t)) => {
                    let d = t.dump().map_err(|e| format!("dump {name}: {e}"))?;
                    let n = t.len().map_err(|e| format!("len {name}: {e}"))?;
                    let pairs: u64 = d.iter().map(|(_, v)| v.len() as u64).sum();
                    if n != pairs {
                        return Err(format!("multimap {name}: len() = {n} but iteration yields {pairs} pairs"));
                    }
                    for (key, vals) in d.iter() {
                        let (_, g) = t.get(key, 0).map_err(|e| format!("get {name}: {e}"))?;
                        if g != *vals {
                            return Err(format!("multimap {name}: get({key:?}) differs from what iteration yields"));
                        }
                    }
                    found = Some(ObsTable::M(k, d));
                    break;
                }
                Ok(_) => unreachable!(),
                Err(TableError::TableTypeMismatch { .. }) | Err(TableError::TypeDefinitionChanged { .. }) => {}
                Err(e) => return Err(format!("open {name}: {e}")),
            }
        }
        match found {
            Some(t) => {
                if obs.insert(name.clone(), t).is_some() {
                    return Err(format!("name {name} listed both as table and multimap"));
                }
            }
            None => return Err(format!("multimap {name}: no known type opens it")),
        }
    }
    Ok(obs)
}

/// Same through a write transaction (used to look at a restored savepoint before aborting).
pub fn observe_write(txn: &WriteTransaction) -> Result<Obs, String> {
    let mut obs = Obs::new();
    let names: Vec<String> = txn
        .list_tables()
        .map_err(|e| format!("list_tables: {e}"))?
        .map(|h| h.name().to_string())
        .collect();
    for name in names {
        let mut found = None;
        for k in table_kinds() {
            match open_w(txn, &name, k) {
                Ok(WHandle::T(t)) => {
                    found = Some(ObsTable::T(k, t.dump().map_err(|e| format!("dump {name}: {e}"))?));
                    break;
                }
                Ok(_) => unreachable!(),
                Err(TableError::TableTypeMismatch { .. }) | Err(TableError::TypeDefinitionChanged { .. }) => {}
                Err(e) => return Err(format!("open {name}: {e}")),
            }
        }
        match found {
            Some(t) => {
                obs.insert(name, t);
            }
            None => return Err(format!("table {name}: no known type opens it")),
        }
    }
    let names: Vec<String> = txn
        .list_multimap_tables()
        .map_err(|e| format!("list_multimap_tables: {e}"))?
        .map(|h| h.name().to_string())
        .collect();
    for name in names {
        let mut found = None;
        for k in mm_kinds() {
            match open_w(txn, &name, k) {
                Ok(WHandle::M(t)) => {
                    found = Some(ObsTable::M(k, t.dump().map_err(|e| format!("dump {name}: {e}"))?));
                    break;
                }
                Ok(_) => unreachable!(),
                Err(TableError::TableTypeMismatch { .. }) | Err(TableError::TypeDefinitionChanged { .. }) => {}
                Err(e) => return Err(format!("open {name}: {e}")),
            }
        }
        match found {
            Some(t) => {
                obs.insert(name, t);
            }
            None => return Err(format!("multimap {name}: no known type opens it")),
        }
    }
    Ok(obs)
}

/// Short human-readable difference between two observations.
pub fn diff(exp: &Obs, got: &Obs) -> String {
    let mut out = String::new();
    for (n, e) in exp {
        match got.get(n) {
            None => out.push_str(&format!("missing table {n}; ")),
            Some(g) if g != e => {
                let (el, gl) = match (e, g) {
                    (ObsTable::T(_, a), ObsTable::T(_, b)) => (a.len(), b.len()),
                    (ObsTable::M(_, a), ObsTable::M(_, b)) => (a.len(), b.len()),
                    _ => (0, 0),
                };
                out.push_str(&format!("table {n} differs (expected {el} keys, got {gl}); "));
                if let (ObsTable::T(_, a), ObsTable::T(_, b)) = (e, g) {
                    for (x, y) in a.iter().zip(b.iter()) {
                        if x != y {
                            out.push_str(&format!("first diff: expected key {:?} got key {:?} (value equal: {}); ", x.0, y.0, x.1 == y.1));
                            break;
                        }
                    }
                }
            }
            _ => {}
        }
    }
    for n in got.keys() {
        if !exp.contains_key(n) {
            out.push_str(&format!("unexpected table {n}; "));
        }
    }
    if out.len() > 600 {
        out.truncate(600);
    }
    out
}

pub fn state_obs(s: &DbState) -> Obs {
    expected_obs(&s.tables)
}
