//! Plan generation (swarm style): every knob is re-drawn per run from the run's PRNG.

use crate::disk::CrashChoice;
use crate::plan::*;
use crate::rng::Rng;

#[derive(Clone, Debug)]
pub struct Profile {
    pub name: &'static str,
    pub steps: (u32, u32),
    pub ops: (u32, u32),
    // step weights
    pub w_txn: u32,
    pub w_reader: u32,
    pub w_spdrop: u32,
    pub w_integrity: u32,
    pub w_compact: u32,
    pub w_reopen: u32,
    pub w_crash: u32,
    pub w_readonly: u32,
    pub w_audit: u32,
    pub w_dropdb: u32,
    pub w_failopen: u32,
    // op weights
    pub w_map: u32,
    pub w_mm: u32,
    pub w_catalog: u32,
    pub w_sp: u32,
    pub w_rd: u32,
    pub w_bulk: u32,
    // txn knobs (per mille)
    pub p_nondurable: u32,
    pub p_2pc: u32,
    pub p_qr: u32,
    pub p_abort: u32,
    pub p_drop: u32,
    pub p_panic: u32,
    pub p_wrong_kind: u32,
    /// per mille of runs that carry the mass-free template (one commit freeing > 400 pages)
    pub p_massfree: u32,
    pub p_panic_end: u32,
    pub deep: bool,
    pub page_4k_only: bool,
}

impl Profile {
    pub fn base(name: &'static str) -> Self {
        Profile {
            name,
            steps: (4, 28),
            ops: (1, 12),
            w_txn: 60,
            w_reader: 12,
            w_spdrop: 2,
            w_integrity: 2,
            w_compact: 2,
            w_reopen: 3,
            w_crash: 0,
            w_readonly: 1,
            w_audit: 4,
            w_dropdb: 1,
            w_failopen: 0,
            w_map: 50,
            w_mm: 15,
            w_catalog: 8,
            w_sp: 6,
            w_rd: 6,
            w_bulk: 3,
            p_nondurable: 350,
            p_2pc: 200,
            p_qr: 150,
            p_abort: 120,
            p_drop: 50,
            p_panic: 15,
            p_wrong_kind: 30,
            p_massfree: 40,
            p_panic_end: 8,
            deep: true,
            page_4k_only: false,
        }
    }

    pub fn for_prop(prop: &str) -> Self {
        let mut p = Self::base("base");
        match prop {
            "C01" => {
                p.name = "crash";
                p.p_massfree = 80;
                p.w_reader = 4;
                p.w_compact = 3;
                p.w_integrity = 2;
                p.w_reopen = 4;
                p.w_bulk = 6;
                p.w_readonly = 0;
                p.p_panic = 0;
            }
            "C02" => {
                p.name = "snapshot";
                p.p_massfree = 150;
                p.w_reader = 40;
                p.w_rd = 25;
                p.w_sp = 8;
                p.w_compact = 3;
                p.p_nondurable = 450;
            }
            "C04" => {
                p.name = "map";
                p.w_map = 90;
                p.w_mm = 0;
                p.w_sp = 2;
                p.w_catalog = 3;
                p.ops = (2, 24);
                p.w_reopen = 5;
                p.w_crash = 2;
            }
            "C05" => {
                p.name = "abandon";
                p.p_panic_end = 60;
                p.p_abort = 350;
                p.p_drop = 200;
                p.p_panic = 80;
                p.w_sp = 14;
                p.w_catalog = 14;
            }
            "C06" => {
                p.name = "churn";
                p.p_massfree = 120;
                p.w_reader = 20;
                p.w_sp = 10;
                p.w_compact = 3;
                p.w_bulk = 5;
                p.deep = true;
            }
            "C07" => {
                p.name = "savepoint";
                p.p_massfree = 80;
                p.w_sp = 30;
                p.w_spdrop = 6;
                p.w_reopen = 5;
                p.w_crash = 3;
                p.p_nondurable = 400;
            }
            "C08" => {
                p.name = "faults";
                p.p_panic_end = 0;
                p.deep = false;
                p.steps = (2, 10);
                p.ops = (1, 8);
                p.w_readonly = 0;
                p.w_dropdb = 0;
                p.w_reopen = 0;
                p.w_crash = 0;
                p.p_panic = 0;
                p.w_bulk = 2;
            }
            "C09" => {
                p.name = "multimap";
                p.w_map = 5;
                p.w_mm = 90;
                p.ops = (2, 30);
                p.w_reopen = 5;
                p.w_crash = 2;
            }
            "C10" => {
                p.name = "image";
                p.w_bulk = 5;
                p.w_mm = 25;
                p.w_sp = 8;
                p.deep = true;
            }
            "C11" => {
                p.name = "reopen";
                p.p_panic_end = 40;
                p.w_reopen = 12;
                p.w_crash = 10;
                p.w_integrity = 10;
                p.p_qr = 350;
                p.w_bulk = 5;
            }
            "C12" => {
                p.name = "corrupt";
                p.steps = (3, 12);
                p.w_readonly = 0;
                p.w_dropdb = 0;
                p.w_mm = 25;
            }
            "C13" => {
                p.name = "compact";
                p.w_compact = 14;
                p.w_bulk = 8;
                p.w_sp = 3;
                p.w_reader = 6;
                p.p_nondurable = 400;
            }
            "C17" => {
                p.name = "catalog";
                p.w_catalog = 45;
                p.p_wrong_kind = 250;
                p.w_map = 30;
                p.w_mm = 15;
                p.p_abort = 200;
            }
            "C19" => {
                p.name = "compat";
                p.p_panic_end = 0;
                p.page_4k_only = true;
                p.w_readonly = 0;
                p.w_dropdb = 0;
                p.w_crash = 0;
                p.steps = (3, 14);
            }
            "C20" => {
                p.name = "lifecycle";
                p.w_failopen = 10;
                p.w_readonly = 8;
                p.w_dropdb = 10;
                p.w_reopen = 8;
                p.w_compact = 4;
                p.w_crash = 3;
            }
            _ => {}
        }
        p
    }
}

pub struct Gen<'a> {
    pub rng: &'a mut Rng,
    pub prof: Profile,
    pub page: u32,
    next_val: u64,
    /// generator's belief of name -> kind (only a hint; the executor decides from the model)
    names: Vec<Option<Kind>>,
    key_space: u64,
    str_prefix: String,
    /// (table, kind, key, value) pairs believed present in multimaps, for removals that hit
    mm_seen: Vec<(u8, Kind, KeyVal, KeyVal)>,
    /// (table, kind, key) believed present in tables
    map_seen: Vec<(u8, Kind, KeyVal)>,
    /// largest value length the chosen geometry supports (a value must fit well inside a region)
    max_val: u32,
}

const NAMES: usize = 5;

impl<'a> Gen<'a> {
    pub fn new(rng: &'a mut Rng, prof: Profile) -> Self {
        Gen { rng, prof, page: 512, next_val: 1, names: vec![None; NAMES], key_space: 32, str_prefix: String::new(), mm_seen: vec![], map_seen: vec![], max_val: 48 * 1024 }
    }

    pub fn cfg(&mut self) -> Cfg {
        let page_size = if self.prof.page_4k_only {
            4096
        } else {
            *self.rng.pick(&[512u32, 512, 512, 1024, 1024, 2048, 4096, 4096, 8192, 16384])
        };
        self.page = page_size;
        // region size in pages; regions must stay >= 64 pages (see DESIGN)
        let region_pages = if self.prof.page_4k_only {
            // C19: only geometries both releases produce themselves (region size is not user-settable)
            let _ = self.rng.below(10);
            None
        } else { match self.rng.below(10) {
            0..=3 => Some(64),
            4..=5 => Some(128),
            6..=7 => Some(512),
            _ => None,
        } };
        let cache = *self.rng.pick(&[0u64, 0, page_size as u64, 4 * page_size as u64, 65536, 1 << 20, 1 << 30]);
        self.max_val = match region_pages {
            Some(rp) => (rp * page_size / 4).min(48 * 1024),
            None => 48 * 1024,
        };
        let freed_chunk = if self.prof.page_4k_only { 0 } else { *self.rng.pick(&[0u32, 0, 0, 1, 2, 3, 5, 16]) };
        Cfg { page_size, region_pages, cache, deep_oracles: self.prof.deep, freed_chunk }
    }

    /// adopt an existing configuration (for workloads continuing on an existing database)
    pub fn set_geometry(&mut self, cfg: &Cfg) {
        self.page = cfg.page_size;
        self.max_val = match cfg.region_pages {
            Some(rp) => (rp * cfg.page_size / 4).min(48 * 1024),
            None => 48 * 1024,
        };
    }

    fn val(&mut self, len: u32) -> Val {
        let len = len.min(self.max_val);
        let id = self.next_val;
        self.next_val += 1;
        Val { id, len }
    }

    fn val_len(&mut self) -> u32 {
        let p = self.page;
        match self.rng.below(100) {
            0..=4 => 0,
            5..=9 => 1,
            10..=39 => self.rng.range(2, 40) as u32,
            40..=59 => self.rng.range(40, (p / 4) as u64) as u32,
            60..=74 => {
                // around the thresholds where leaves split / values move out of line
                let base = *self.rng.pick(&[p / 4, p / 2, p - 64, p - 16, p, p + 16]);
                (base as i64 + self.rng.range(0, 24) as i64 - 12).max(0) as u32
            }
            75..=89 => self.rng.range((p / 2) as u64, (2 * p) as u64) as u32,
            _ => self.rng.range(p as u64, (6 * p) as u64) as u32,
        }
    }

    fn bulk_len(&mut self) -> u32 {
        self.rng.range(16 * 1024, 48 * 1024) as u32
    }

    pub fn key(&mut self, kt: KT) -> KeyVal {
        let n = match self.rng.below(20) {
            0 => 0,
            1 => u64::MAX,
            2 => self.rng.next(),
            _ => self.rng.below(self.key_space),
        };
        match kt {
            KT::U => KeyVal::U(n),
            KT::S => KeyVal::S(self.str_key(n)),
            KT::B => KeyVal::B(self.str_key(n).into_bytes()),
        }
    }

    fn str_key(&mut self, n: u64) -> String {
        if n == 0 && self.rng.chance(1, 2) {
            return String::new();
        }
        match n % 7 {
            // multi-byte characters that share their leading bytes: neighbouring keys first differ
            // at a continuation byte, where a shortened routing key must not be cut
            5 => {
                let c = char::from_u32(0x4E00 + ((n / 7) % 8) as u32 * 0x40 + ((n / 56) % 3) as u32).unwrap();
                format!("{}{}{}", self.str_prefix, c, n % 11)
            }
            6 => {
                let c = char::from_u32(0x1F600 + ((n / 7) % 4) as u32 * 0x40 + ((n / 28) % 3) as u32 * 0x1000 + ((n / 84) % 2) as u32).unwrap();
                format!("{}{}{}", self.str_prefix, c, n % 5)
            }
            0 => format!("{}{:03}", self.str_prefix, n % 1000),
            1 => format!("{}é{}ü", self.str_prefix, n % 97),
            2 => format!("{}{}", self.str_prefix, "x".repeat((n % 40) as usize)),
            3 => format!("k{n}"),
            _ => format!("{}/{}/{}", self.str_prefix, n % 7, n % 1000),
        }
    }

    fn bd(&mut self, kt: KT) -> Bd {
        match self.rng.below(4) {
            0 => Bd::Unb,
            1 | 2 => Bd::Inc(self.key(kt)),
            _ => Bd::Exc(self.key(kt)),
        }
    }

    fn bounds(&mut self, kt: KT) -> (Bd, Bd) {
        let a = self.bd(kt);
        let b = self.bd(kt);
        let ka = match &a {
            Bd::Inc(k) | Bd::Exc(k) => Some(k.clone()),
            _ => None,
        };
        let kb = match &b {
            Bd::Inc(k) | Bd::Exc(k) => Some(k.clone()),
            _ => None,
        };
        if let (Some(x), Some(y)) = (ka, kb)
            && x > y
        {
            return (b, a);
        }
        (a, b)
    }

    fn pred(&mut self) -> Pred {
        let m = self.rng.range(1, 5) as u32;
        let panic_at = if self.rng.chance(self.prof.p_panic as u64, 1000) { Some(self.rng.below(6) as u32) } else { None };
        Pred { m, r: self.rng.below(m as u64) as u32, panic_at }
    }

    fn tref(&mut self, want_mm: Option<bool>) -> TRef {
        // prefer a name whose believed kind fits
        let wrong = self.rng.chance(self.prof.p_wrong_kind as u64, 1000);
        for _ in 0..6 {
            let n = self.rng.usize(NAMES);
            match self.names[n] {
                Some(k) => {
                    if wrong {
                        let k2 = *self.rng.pick(&ALL_KINDS);
                        return TRef { name: n as u8, kind: k2 };
                    }
                    if want_mm.is_none_or(|w| w == k.is_multimap()) {
                        return TRef { name: n as u8, kind: k };
                    }
                }
                None => {
                    let kinds: Vec<Kind> = ALL_KINDS.into_iter().filter(|k| want_mm.is_none_or(|w| w == k.is_multimap())).collect();
                    let k = *self.rng.pick(&kinds);
                    self.names[n] = Some(k);
                    return TRef { name: n as u8, kind: k };
                }
            }
        }
        let n = self.rng.usize(NAMES);
        let kinds: Vec<Kind> = ALL_KINDS.into_iter().filter(|k| want_mm.is_none_or(|w| w == k.is_multimap())).collect();
        TRef { name: n as u8, kind: self.names[n].filter(|k| want_mm.is_none_or(|w| w == k.is_multimap())).unwrap_or(*self.rng.pick(&kinds)) }
    }

    fn rop(&mut self) -> ROp {
        let idx = self.rng.below(8) as u32;
        match self.rng.below(20) {
            0..=4 => ROp::Begin,
            5..=8 => ROp::Check { idx },
            9..=10 => {
                let kt = *self.rng.pick(&[KT::U, KT::S]);
                let (lo, hi) = self.bounds(kt);
                ROp::TakeIter { idx, t: self.rng.below(8) as u8, lo, hi, owned: self.rng.chance(1, 2) }
            }
            11..=12 => ROp::TakeGuard { idx, t: self.rng.below(8) as u8, k: self.key(KT::U), owned: self.rng.chance(1, 2) },
            13..=15 => ROp::Advance { idx, it: self.rng.below(4) as u32, n: self.rng.range(1, 6) as u32, pattern: self.rng.next() as u32 },
            16 => ROp::Recheck { idx },
            17 => ROp::DropHandle { idx },
            _ => ROp::Drop { idx },
        }
    }

    fn map_op(&mut self) -> Op {
        let t = self.tref(Some(false));
        let kt = t.kind.key_type();
        let k = self.key(kt);
        let choice = self.rng.below(100);
        // lookups, replacements and removals: half of them aim at a key inserted earlier (a fresh
        // random key is usually absent, and only the "absent" paths would run)
        let k = if (44..=74).contains(&choice) && self.rng.chance(1, 2) {
            let known: Vec<usize> = self.map_seen.iter().enumerate().filter(|(_, e)| e.0 == t.name && e.1 == t.kind).map(|(i, _)| i).collect();
            if known.is_empty() { k } else { self.map_seen[known[self.rng.usize(known.len())]].2.clone() }
        } else {
            k
        };
        if choice <= 43 {
            if self.map_seen.len() >= 128 {
                let at = self.rng.usize(self.map_seen.len());
                self.map_seen.swap_remove(at);
            }
            self.map_seen.push((t.name, t.kind, k.clone()));
        }
        match choice {
            0..=39 => {
                let l = self.val_len();
                Op::Insert { t, k, v: self.val(l) }
            }
            40..=43 => {
                let l = self.val_len();
                Op::InsertReserve { t, k, v: self.val(l) }
            }
            44..=49 => Op::Get { t, k },
            50..=53 => {
                let l = self.val_len();
                Op::GetMut { t, k, v: self.val(l) }
            }
            54..=58 => {
                let l = self.val_len();
                Op::Entry { t, k, v: self.val(l), mode: self.rng.below(3) as u8 }
            }
            59..=74 => Op::Remove { t, k },
            75..=77 => Op::PopFirst { t },
            78..=80 => Op::PopLast { t },
            81..=86 => {
                let (lo, hi) = self.bounds(kt);
                Op::Range { t, lo, hi, pattern: if self.rng.chance(1, 2) { 0 } else { self.rng.next() as u32 }, take: if self.rng.chance(1, 2) { u32::MAX } else { self.rng.below(10) as u32 } }
            }
            87..=89 => Op::FirstLast { t },
            90..=91 => Op::Len { t },
            92..=95 => {
                let (lo, hi) = self.bounds(kt);
                Op::Retain { t, lo, hi, p: self.pred() }
            }
            _ => {
                let (lo, hi) = self.bounds(kt);
                Op::ExtractIf { t, lo, hi, p: self.pred(), pattern: if self.rng.chance(1, 2) { 0 } else { self.rng.next() as u32 }, take: if self.rng.chance(2, 3) { u32::MAX } else { self.rng.below(8) as u32 } }
            }
        }
    }

    fn mm_val(&mut self, kt: KT) -> KeyVal {
        match kt {
            KT::U => KeyVal::U(self.rng.below(400)),
            _ => {
                // value sizes from empty to larger than half a page
                let n = self.rng.below(300);
                let len = match self.rng.below(10) {
                    0 => 0,
                    1..=5 => self.rng.range(1, 24) as usize,
                    6..=7 => self.rng.range(24, (self.page / 4) as u64) as usize,
                    _ => self.rng.range((self.page / 3) as u64, (self.page * 3 / 4) as u64) as usize,
                };
                let mut b = format!("{n:05}").into_bytes();
                b.resize(len.max(if len == 0 { 0 } else { 5 }), b'v');
                if len == 0 {
                    b.clear();
                }
                KeyVal::B(b)
            }
        }
    }

    fn mm_op(&mut self) -> Op {
        let t = self.tref(Some(true));
        let kt = t.kind.key_type();
        // few keys so that value sets grow and spill into subtrees
        let k = match kt {
            KT::U => KeyVal::U(self.rng.below(4)),
            _ => KeyVal::S(format!("m{}", self.rng.below(4))),
        };
        match self.rng.below(100) {
            0..=54 => {
                // one insert in ten repeats a pair inserted before ("no duplicate pairs")
                let known: Vec<usize> = self.mm_seen.iter().enumerate().filter(|(_, e)| e.0 == t.name && e.1 == t.kind).map(|(i, _)| i).collect();
                if !known.is_empty() && self.rng.chance(1, 10) {
                    let e = self.mm_seen[known[self.rng.usize(known.len())]].clone();
                    return Op::MmInsert { t, k: e.2, v: e.3 };
                }
                let v = self.mm_val(t.kind.val_type());
                if self.mm_seen.len() >= 96 {
                    let at = self.rng.usize(self.mm_seen.len());
                    self.mm_seen.swap_remove(at);
                }
                self.mm_seen.push((t.name, t.kind, k.clone(), v.clone()));
                Op::MmInsert { t, k, v }
            }
            55..=74 => {
                // mostly a pair that was inserted before (a fresh random value is almost never
                // present, and removing what is not there exercises nothing)
                let known: Vec<usize> = self.mm_seen.iter().enumerate().filter(|(_, e)| e.0 == t.name && e.1 == t.kind).map(|(i, _)| i).collect();
                if !known.is_empty() && self.rng.chance(4, 5) {
                    let i = known[self.rng.usize(known.len())];
                    // prefer the most recent insert now and then: the key's last value
                    let i = if self.rng.chance(1, 3) { *known.last().unwrap() } else { i };
                    let (_, _, k2, v2) = self.mm_seen.swap_remove(i);
                    Op::MmRemove { t, k: k2, v: v2 }
                } else {
                    Op::MmRemove { t, k, v: self.mm_val(t.kind.val_type()) }
                }
            }
            75..=79 => Op::MmRemoveAll { t, k },
            80..=89 => Op::MmGet { t, k, pattern: if self.rng.chance(1, 2) { 0 } else { self.rng.next() as u32 } },
            90..=95 => {
                let (lo, hi) = self.bounds(kt);
                Op::MmRange { t, lo, hi, rev: self.rng.chance(1, 2) }
            }
            _ => Op::Len { t },
        }
    }

    fn catalog_op(&mut self) -> Op {
        if self.rng.chance(self.prof.p_wrong_kind as u64, 4000) {
            // mostly within one family (same-name types of other widths; tuples with a look-alike element)
            let fam = self.rng.below(2) as u8 * 4;
            let made = fam + self.rng.below(4) as u8;
            let reopened = if self.rng.chance(1, 6) { self.rng.below(8) as u8 } else { fam + self.rng.below(4) as u8 };
            return Op::TypeProbe { made, reopened, as_key: self.rng.chance(1, 2) };
        }
        let t = self.tref(None);
        match self.rng.below(10) {
            0..=2 => Op::Open { t },
            3 => Op::CloseHandle { t },
            4..=5 => {
                let to = self.rng.usize(NAMES) as u8;
                if self.names[to as usize].is_none() {
                    self.names[to as usize] = self.names[t.name as usize];
                    self.names[t.name as usize] = None;
                }
                Op::Rename { t, to }
            }
            6..=7 => {
                self.names[t.name as usize] = None;
                Op::Delete { t }
            }
            _ => Op::List,
        }
    }

    fn sp_op(&mut self) -> Op {
        let idx = self.rng.below(8) as u32;
        match self.rng.below(20) {
            0..=4 => Op::SpEphemeral,
            5..=8 => Op::SpPersistent,
            9..=11 => Op::SpRestore { idx },
            12..=13 => Op::SpRestorePersistent { idx },
            14..=15 => Op::SpDeletePersistent { idx },
            16 => Op::SpDropEphemeral { idx },
            17 => Op::SetDurability { durable: self.rng.chance(1, 2) },
            _ => Op::SpList,
        }
    }

    pub fn txn(&mut self) -> Txn {
        let p = self.prof.clone();
        let n = self.rng.range(p.ops.0 as u64, p.ops.1 as u64) as usize;
        let durable = !self.rng.chance(p.p_nondurable as u64, 1000);
        let quick_repair = durable && self.rng.chance(p.p_qr as u64, 1000);
        let two_phase = durable && self.rng.chance(p.p_2pc as u64, 1000);
        let mut ops = vec![];
        // savepoint creation must come first (a transaction is dirty after the first open)
        if self.rng.chance(p.w_sp as u64, 100) {
            ops.push(if self.rng.chance(1, 2) { Op::SpEphemeral } else { Op::SpPersistent });
        }
        let w = [p.w_map, p.w_mm, p.w_catalog, p.w_sp, p.w_rd, p.w_bulk];
        // per-transaction focus: most ops hit one or two tables
        for _ in 0..n {
            let op = match self.rng.weighted(&w) {
                0 => self.map_op(),
                1 => self.mm_op(),
                2 => self.catalog_op(),
                3 => self.sp_op(),
                4 => Op::Reader(self.rop()),
                _ if self.rng.chance(1, 3) => {
                    // a burst of values under one multimap key: the value set grows past the
                    // inline limit and into a subtree with branches
                    let t = self.tref(Some(true));
                    let k = match t.kind.key_type() {
                        KT::U => KeyVal::U(self.rng.below(4)),
                        _ => KeyVal::S(format!("m{}", self.rng.below(4))),
                    };
                    for _ in 0..self.rng.range(6, 30) {
                        let v = self.mm_val(t.kind.val_type());
                        if self.mm_seen.len() < 96 {
                            self.mm_seen.push((t.name, t.kind, k.clone(), v.clone()));
                        }
                        ops.push(Op::MmInsert { t, k: k.clone(), v });
                    }
                    Op::MmGet { t, k, pattern: 0 }
                }
                _ => {
                    let t = self.tref(Some(false));
                    let l = if t.kind.val_is_bytes() { self.bulk_len() } else { 8 };
                    let k = self.key(t.kind.key_type());
                    Op::Insert { t, k, v: self.val(l) }
                }
            };
            ops.push(op);
        }
        let end = {
            let r = self.rng.below(1000) as u32;
            if r < p.p_abort {
                End::Abort
            } else if r < p.p_abort + p.p_drop {
                End::Drop
            } else if r < p.p_abort + p.p_drop + p.p_panic_end {
                End::Panic
            } else {
                End::Commit
            }
        };
        Txn { durable, two_phase, quick_repair, ops, end, rev_drop: self.rng.chance(1, 2) }
    }

    pub fn crash_choice(&mut self) -> CrashChoice {
        match self.rng.below(12) {
            0 => CrashChoice::AllKept,
            1 => CrashChoice::NoneKept,
            2 => CrashChoice::AllBut(self.rng.next() as u32),
            3 => CrashChoice::Only(self.rng.next() as u32),
            4 => CrashChoice::OnlyHeader,
            5 => CrashChoice::ExceptHeader,
            6 => CrashChoice::OnlyLens,
            7 | 8 => CrashChoice::PrefixTorn(self.rng.next() as u32, self.rng.next()),
            _ => CrashChoice::Random(self.rng.next()),
        }
    }

    pub fn step(&mut self) -> Step {
        let p = self.prof.clone();
        let w = [p.w_txn, p.w_reader, p.w_spdrop, p.w_integrity, p.w_compact, p.w_reopen, p.w_crash, p.w_readonly, p.w_audit, p.w_dropdb, p.w_failopen];
        match self.rng.weighted(&w) {
            0 => Step::Txn(self.txn()),
            1 => Step::Reader(self.rop()),
            2 => Step::SpDropEphemeral { idx: self.rng.below(8) as u32 },
            3 => Step::CheckIntegrity,
            4 => Step::Compact,
            5 => {
                let ps = self.page as u64;
                Step::Reopen { cache: *self.rng.pick(&[0, ps, 4 * ps, 65536, 1 << 20, 1 << 30]) }
            }
            6 => Step::Crash { choice: self.crash_choice() },
            7 => Step::ReadOnlyOpen,
            8 => Step::Audit,
            9 => Step::DropDbDuringTxn { txn: self.txn() },
            _ => Step::FailingOpen { kind: self.rng.below(10) as u8, arg: self.rng.next() },
        }
    }

    pub fn plan(&mut self) -> Plan {
        let cfg = self.cfg();
        self.key_space = *self.rng.pick(&[6u64, 16, 32, 64, 200, 1000]);
        self.str_prefix = match self.rng.below(3) {
            0 => String::new(),
            1 => "shared/prefix/".to_string(),
            _ => "p".repeat(self.rng.range(1, 60) as usize),
        };
        let n = self.rng.range(self.prof.steps.0 as u64, self.prof.steps.1 as u64) as usize;
        let mut steps = vec![];
        for _ in 0..n {
            steps.push(self.step());
        }
        // Mass-free template: redb records freed pages in chunks of 400 per transaction; ordinary
        // steps rarely free that many in one commit, so some runs do it on purpose, with a reader
        // on the snapshot before it, and look through that reader after later commits.
        if !self.prof.page_4k_only && self.page <= 1024 && self.rng.chance(self.prof.p_massfree as u64, 1000) {
            let name = (NAMES - 1) as u8;
            if self.names[name as usize].is_none() || self.names[name as usize] == Some(Kind::TUB) {
                self.names[name as usize] = Some(Kind::TUB);
                let t = TRef { name, kind: Kind::TUB };
                // the chunks count page *entries* (a multi-page value is one entry), so what is
                // needed is many pages: values of 0.6 page, one per leaf
                let len = self.page * 6 / 10;
                let count = 405 + self.rng.range(0, 80);
                let fill: Vec<Op> = (0..count).map(|i| Op::Insert { t, k: KeyVal::U(100_000 + i), v: self.val(len) }).collect();
                let mk = |ops: Vec<Op>, durable: bool| Txn { durable, two_phase: false, quick_repair: false, ops, end: End::Commit, rev_drop: false };
                let mut tpl = vec![Step::Txn(mk(fill, !self.rng.chance(1, 3)))];
                let with_reader = self.rng.chance(3, 4);
                if with_reader {
                    tpl.push(Step::Reader(ROp::Begin));
                }
                let free_ops = match self.rng.below(3) {
                    0 => vec![Op::Delete { t }],
                    1 => (0..count).map(|i| Op::Remove { t, k: KeyVal::U(100_000 + i) }).collect(),
                    _ => (0..count).map(|_| Op::PopFirst { t }).collect(),
                };
                tpl.push(Step::Txn(mk(free_ops, !self.rng.chance(1, 3))));
                for _ in 0..self.rng.range(1, 3) {
                    tpl.push(Step::Txn(self.txn()));
                }
                if with_reader {
                    tpl.push(Step::Reader(ROp::Check { idx: 0 }));
                }
                let at = self.rng.usize(steps.len() + 1);
                let tail = steps.split_off(at);
                steps.extend(tpl);
                steps.extend(tail);
                self.names[name as usize] = None;
            }
        }
        Plan { cfg, steps }
    }
}
