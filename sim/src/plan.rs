//! Plans: the explicit, serialisable description of one simulated execution. A plan — not a
//! seed — is what replay files store, so that minimisation can delete steps and shrink arguments.
//! Steps that refer to dynamic objects (readers, savepoints, iterators) use indices that are
//! resolved modulo the live set, so a plan stays executable after steps are removed.

use crate::disk::{CrashChoice, Fault};
use serde::{Deserialize, Serialize};

#[derive(Clone, Debug, Serialize, Deserialize, PartialEq, Eq, PartialOrd, Ord, Hash)]
pub enum KeyVal {
    U(u64),
    S(String),
    B(Vec<u8>),
}

/// A value is described, not stored: `id` is unique per write in a run, `len` the byte length.
/// For u64-valued tables the stored value is `id`.
#[derive(Clone, Copy, Debug, Serialize, Deserialize, PartialEq, Eq, PartialOrd, Ord, Hash)]
pub struct Val {
    pub id: u64,
    pub len: u32,
}

pub fn gen_bytes(v: Val) -> Vec<u8> {
    let mut out = Vec::with_capacity(v.len as usize);
    let idb = v.id.to_le_bytes();
    let mut x = v.id.wrapping_mul(0x9E37_79B9_7F4A_7C15) | 1;
    for i in 0..v.len as usize {
        if i < 8 {
            out.push(idb[i]);
        } else {
            if i % 8 == 0 {
                x ^= x << 13;
                x ^= x >> 7;
                x ^= x << 17;
            }
            out.push((x >> ((i % 8) * 8)) as u8);
        }
    }
    out
}

/// Table kinds (key type / value type)
#[derive(Clone, Copy, Debug, Serialize, Deserialize, PartialEq, Eq, PartialOrd, Ord, Hash)]
pub enum Kind {
    /// Table<u64, &[u8]>
    TUB,
    /// Table<&str, &[u8]>
    TSB,
    /// Table<&[u8], u64>
    TBU,
    /// Table<&str, u64>
    TSU,
    /// MultimapTable<u64, &[u8]>
    MUB,
    /// MultimapTable<&str, u64>
    MSU,
}

pub const ALL_KINDS: [Kind; 6] = [Kind::TUB, Kind::TSB, Kind::TBU, Kind::TSU, Kind::MUB, Kind::MSU];

#[derive(Clone, Copy, Debug, PartialEq, Eq)]
pub enum KT {
    U,
    S,
    B,
}

impl Kind {
    pub fn is_multimap(self) -> bool {
        matches!(self, Kind::MUB | Kind::MSU)
    }
    pub fn key_type(self) -> KT {
        match self {
            Kind::TUB | Kind::MUB => KT::U,
            Kind::TSB | Kind::TSU | Kind::MSU => KT::S,
            Kind::TBU => KT::B,
        }
    }
    /// value type; for multimaps the value is a key type as well
    pub fn val_type(self) -> KT {
        match self {
            Kind::TUB | Kind::TSB | Kind::MUB => KT::B,
            Kind::TBU | Kind::TSU | Kind::MSU => KT::U,
        }
    }
    pub fn val_is_bytes(self) -> bool {
        self.val_type() == KT::B
    }
}

#[derive(Clone, Copy, Debug, Serialize, Deserialize, PartialEq, Eq, PartialOrd, Ord, Hash)]
pub struct TRef {
    pub name: u8,
    pub kind: Kind,
}

pub fn table_name(n: u8) -> String {
    format!("t{n}")
}

#[derive(Clone, Debug, Serialize, Deserialize, PartialEq)]
pub enum Bd {
    Unb,
    Inc(KeyVal),
    Exc(KeyVal),
}

/// Deterministic predicate over keys: selected iff fnv(key bytes) % m == r. `panic_at`: panic on
/// the n-th evaluation.
#[derive(Clone, Debug, Serialize, Deserialize, PartialEq)]
pub struct Pred {
    pub m: u32,
    pub r: u32,
    pub panic_at: Option<u32>,
}

#[derive(Clone, Debug, Serialize, Deserialize, PartialEq)]
pub enum Op {
    // ---- ordered-map operations (C04)
    Insert { t: TRef, k: KeyVal, v: Val },
    InsertReserve { t: TRef, k: KeyVal, v: Val },
    Get { t: TRef, k: KeyVal },
    GetMut { t: TRef, k: KeyVal, v: Val },
    /// entry(): mode 0 = or_insert, 1 = and_modify+or_insert, 2 = occupied remove / vacant insert
    Entry { t: TRef, k: KeyVal, v: Val, mode: u8 },
    Remove { t: TRef, k: KeyVal },
    PopFirst { t: TRef },
    PopLast { t: TRef },
    /// iterate range; `pattern` bits decide front/back consumption; take = max items
    Range { t: TRef, lo: Bd, hi: Bd, pattern: u32, take: u32 },
    FirstLast { t: TRef },
    Len { t: TRef },
    Retain { t: TRef, lo: Bd, hi: Bd, p: Pred },
    ExtractIf { t: TRef, lo: Bd, hi: Bd, p: Pred, pattern: u32, take: u32 },
    // ---- multimap operations (C09)
    MmInsert { t: TRef, k: KeyVal, v: KeyVal },
    MmRemove { t: TRef, k: KeyVal, v: KeyVal },
    MmRemoveAll { t: TRef, k: KeyVal },
    MmGet { t: TRef, k: KeyVal, pattern: u32 },
    MmRange { t: TRef, lo: Bd, hi: Bd, rev: bool },
    // ---- catalog (C17)
    Open { t: TRef },
    CloseHandle { t: TRef },
    Rename { t: TRef, to: u8 },
    Delete { t: TRef },
    List,
    /// create a table whose key (or value) is a user-defined type, reopen it with another
    /// user-defined type of the same or a different name/width, delete it (custom.rs)
    TypeProbe { made: u8, reopened: u8, as_key: bool },
    // ---- savepoints (C07)
    SpEphemeral,
    SpPersistent,
    SpRestore { idx: u32 },
    SpRestorePersistent { idx: u32 },
    SpDeletePersistent { idx: u32 },
    SpDropEphemeral { idx: u32 },
    SpList,
    // ---- settings
    SetDurability { durable: bool },
    // ---- reader actors interleaved with the writer (C02)
    Reader(ROp),
    Stats,
}

#[derive(Clone, Debug, Serialize, Deserialize, PartialEq)]
pub enum ROp {
    Begin,
    /// full re-read of everything through the reader: list, every table forward+backward, len
    Check { idx: u32 },
    /// take a range iterator on a table and hold it; owned => range_owned
    TakeIter { idx: u32, t: u8, lo: Bd, hi: Bd, owned: bool },
    /// take a guard for a key and hold it; owned => get_owned
    TakeGuard { idx: u32, t: u8, k: KeyVal, owned: bool },
    /// advance a held iterator n steps (pattern bits: front/back)
    Advance { idx: u32, it: u32, n: u32, pattern: u32 },
    /// re-read all held guards
    Recheck { idx: u32 },
    /// drop the ReadTransaction handle but keep tables/iters/guards
    DropHandle { idx: u32 },
    Drop { idx: u32 },
}

#[derive(Clone, Copy, Debug, Serialize, Deserialize, PartialEq)]
pub enum End {
    Commit,
    Abort,
    Drop,
    /// the application panics while the transaction is live; the unwinding drops it (its pages
    /// stay allocated in memory until the next open rebuilds the allocator state)
    Panic,
}

#[derive(Clone, Debug, Serialize, Deserialize, PartialEq)]
pub struct Txn {
    pub durable: bool,
    pub two_phase: bool,
    pub quick_repair: bool,
    pub ops: Vec<Op>,
    pub end: End,
    /// drop open table handles in reverse order
    pub rev_drop: bool,
}

#[derive(Clone, Debug, Serialize, Deserialize, PartialEq)]
pub enum Step {
    Txn(Txn),
    Reader(ROp),
    SpDropEphemeral { idx: u32 },
    CheckIntegrity,
    Compact,
    /// clean close + reopen with a new cache size
    Reopen { cache: u64 },
    /// dirty restart now (the database is dropped, then the storage is taken in a crash state)
    Crash { choice: CrashChoice },
    /// open the closed database read-only, read everything, close (C20)
    ReadOnlyOpen,
    /// full read of the latest state through a fresh read transaction
    Audit,
    /// arm the disk with faults (C08); calls are counted from here
    ArmFaults { faults: Vec<Fault> },
    /// drop the Database while a write transaction (with these ops) is live; then end it
    DropDbDuringTxn { txn: Txn },
    /// close, then attempt an open that is meant to fail (C20: close() exactly once, nothing after
    /// it): kind 0 bad magic, 1 truncated file, 2 wrong page size requested, 3 repair aborted from
    /// the callback (on a crash image), 4 the arg-th backend call of the open fails, 5 read-only open
    /// of a file that needs repair, 6 read-only open of a clean file extended by whole pages, 7 normal
    /// open of such a file, 8 the backend's own close() fails at the next clean close, 9 read-only open of a clean file with altered
    /// commit-slot selector bits / one altered slot byte; then reopen normally
    #[serde(alias = "FailingOpen")]
    FailingOpen { kind: u8, arg: u64 },
}

#[derive(Clone, Debug, Serialize, Deserialize, PartialEq)]
pub struct Cfg {
    pub page_size: u32,
    /// region size in pages (None = redb default)
    pub region_pages: Option<u32>,
    pub cache: u64,
    /// run the (expensive) per-step ownership / pin oracles
    pub deep_oracles: bool,
    /// pages per record of redb's freed-page / allocated-page system tables (0 = redb's 400);
    /// lowered so that small workloads cross the record boundary (hook verif_knobs)
    #[serde(default)]
    pub freed_chunk: u32,
}

#[derive(Clone, Debug, Serialize, Deserialize, PartialEq)]
pub struct Plan {
    pub cfg: Cfg,
    pub steps: Vec<Step>,
}

impl Op {
    /// operations that need `&mut WriteTransaction` (no table handle may be open)
    pub fn needs_mut(&self) -> bool {
        matches!(
            self,
            Op::SpRestore { .. } | Op::SpRestorePersistent { .. } | Op::SetDurability { .. }
        )
    }
}
