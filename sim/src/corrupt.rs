//! C12: stored-byte corruption. A closed image of a finished run is altered (header bits
//! exhaustively in slices, pages by role: single bit, single byte, run of bytes within a page,
//! two pages swapped) and handed to the real redb: open + check_integrity() must report the
//! damage, or what is served must be exactly one commit point of the history.

use crate::crash::CrashStats;
use crate::exec::{Exec, ExecStats, Mode, Viol};
use crate::fsck;
use crate::obs::{expected_obs, observe_read};
use crate::plan::Plan;
use crate::rng::Rng;
use crate::runner::{add_disk, add_exec, Extra, RunOut};
use redb::ReadableDatabase;
use serde::{Deserialize, Serialize};
use std::panic::{catch_unwind, AssertUnwindSafe};

#[derive(Clone, Debug, Serialize, Deserialize, PartialEq)]
pub enum Alteration {
    Bit { off: u64, bit: u8 },
    Byte { off: u64, val: u8 },
    Run { off: u64, len: u32, seed: u64 },
    Swap { a: u64, b: u64, len: u32 },
}

pub fn apply(img: &mut [u8], a: &Alteration) -> bool {
    let n = img.len() as u64;
    match a {
        Alteration::Bit { off, bit } => {
            if *off >= n {
                return false;
            }
            img[*off as usize] ^= 1 << (bit % 8);
            true
        }
        Alteration::Byte { off, val } => {
            if *off >= n || img[*off as usize] == *val {
                return false;
            }
            img[*off as usize] = *val;
            true
        }
        Alteration::Run { off, len, seed } => {
            if *off + *len as u64 > n {
                return false;
            }
            let mut r = Rng::new(*seed);
            let mut changed = false;
            for i in 0..*len as usize {
                let v = r.next() as u8;
                if img[*off as usize + i] != v {
                    changed = true;
                }
                img[*off as usize + i] = v;
            }
            changed
        }
        Alteration::Swap { a, b, len } => {
            let l = *len as u64;
            if a + l > n || b + l > n || (a < b && a + l > *b) || (b < a && b + l > *a) || a == b {
                return false;
            }
            let (a, b, l) = (*a as usize, *b as usize, l as usize);
            let x = img[a..a + l].to_vec();
            let y = img[b..b + l].to_vec();
            if x == y {
                return false;
            }
            img[a..a + l].copy_from_slice(&y);
            img[b..b + l].copy_from_slice(&x);
            true
        }
    }
}

#[derive(Debug, PartialEq)]
pub enum Verdict {
    ReportedOpen,
    ReportedIntegrityErr,
    ReportedPanic,
    RepairedOk,
    CleanSameState,
    Violation(Viol),
}

fn matches_history(ex: &mut Exec) -> Result<Option<usize>, String> {
    let db = ex.db.as_ref().ok_or("closed")?;
    let obs = catch_unwind(AssertUnwindSafe(|| db.begin_read().map_err(|e| e.to_string()).and_then(|t| observe_read(&t))))
        .map_err(|_| format!("panic while reading: {}", crate::runner::last_panic()))??;
    let psp = catch_unwind(AssertUnwindSafe(|| ex.observe_psp_ids())).map_err(|_| "panic while listing savepoints".to_string())?;
    for v in (0..ex.versions.len()).rev() {
        let st = &ex.versions[v];
        if expected_obs(&st.tables) == obs {
            if let Ok(ids) = &psp {
                let exp: Vec<u64> = st.psp.keys().copied().collect();
                if *ids != exp {
                    continue;
                }
            }
            return Ok(Some(v));
        }
    }
    Ok(None)
}

fn closest_diff(ex: &mut Exec) -> String {
    let Some(db) = ex.db.as_ref() else { return String::new() };
    let obs = match catch_unwind(AssertUnwindSafe(|| db.begin_read().map_err(|e| e.to_string()).and_then(|t| observe_read(&t)))) {
        Ok(Ok(o)) => o,
        _ => return "unreadable".into(),
    };
    let psp = catch_unwind(AssertUnwindSafe(|| ex.observe_psp_ids())).ok().and_then(|r| r.ok());
    let mut out = String::new();
    for v in (0..ex.versions.len()).rev() {
        let st = &ex.versions[v];
        if expected_obs(&st.tables) == obs {
            out.push_str(&format!("tables equal version {v} of {} but its savepoints are {:?} and the file lists {:?}; ", ex.versions.len() - 1, st.psp.keys().collect::<Vec<_>>(), psp));
            return out;
        }
    }
    let last = ex.versions.len() - 1;
    out.push_str(&crate::obs::diff(&expected_obs(&ex.versions[last].tables), &obs));
    out
}

pub fn judge(plan: &Plan, image: Vec<u8>, versions: &[std::sync::Arc<crate::model::DbState>]) -> Verdict {
    let mut cfg = plan.cfg.clone();
    cfg.deep_oracles = false;
    let mut ex = Exec::new(cfg, Mode::Strict);
    ex.versions = versions.to_vec();
    ex.cur = versions.len() - 1;
    let opened = catch_unwind(AssertUnwindSafe(|| ex.open_image(image, plan.cfg.cache)));
    let verdict = (|| {
        match opened {
            Err(_) => return Verdict::ReportedPanic,
            Ok(Err(_)) => return Verdict::ReportedOpen,
            Ok(Ok(())) => {}
        }
        let r = {
            let db = ex.db.as_mut().unwrap();
            catch_unwind(AssertUnwindSafe(|| db.check_integrity()))
        };
        match r {
            Err(_) => Verdict::ReportedPanic,
            Ok(Err(_)) => Verdict::ReportedIntegrityErr,
            Ok(Ok(clean)) => {
                match matches_history(&mut ex) {
                    Ok(Some(_)) => {}
                    Ok(None) => {
                        return Verdict::Violation(Viol {
                            prop: "C12".into(),
                            tag: if clean { "certified-damage".into() } else { "repair-wrong-state".into() },
                            detail: format!("check_integrity() returned Ok({clean}) but the contents served equal no commit point of the history; against the newest: {}", closest_diff(&mut ex)),
                        });
                    }
                    Err(e) => {
                        return Verdict::Violation(Viol {
                            prop: "C12".into(),
                            tag: if clean { "certified-damage".into() } else { "repair-wrong-state".into() },
                            detail: format!("check_integrity() returned Ok({clean}) but reading the database afterwards failed: {e}"),
                        });
                    }
                }
                if clean {
                    return Verdict::CleanSameState;
                }
                let again = {
                    let db = ex.db.as_mut().unwrap();
                    catch_unwind(AssertUnwindSafe(|| db.check_integrity()))
                };
                match again {
                    Ok(Ok(true)) => Verdict::RepairedOk,
                    other => Verdict::Violation(Viol {
                        prop: "C12".into(),
                        tag: "second-check".into(),
                        detail: format!("after a reported repair the second check_integrity() gave {:?}", other.map(|r| r.map_err(|e| e.to_string())).map_err(|_| "panic")),
                    }),
                }
            }
        }
    })();
    // contract violations are not judged on deliberately damaged files
    ex.disk.st().contract.clear();
    ex.viols.clear();
    let _ = catch_unwind(AssertUnwindSafe(|| {
        ex.drop_handles();
        let db = ex.db.take();
        drop(db);
    }));
    verdict
}

/// draw alterations stratified over page roles
fn draw(rng: &mut Rng, image: &[u8], n: usize, slice: u64) -> Vec<Alteration> {
    let mut out = vec![];
    // (a) header bits: this run's slice of the 320 x 8 bits (16 slices cover all of them)
    for byte in 0..320u64 {
        for bit in 0..8u8 {
            if (byte * 8 + bit as u64) % 16 == slice % 16 {
                out.push(Alteration::Bit { off: byte, bit });
            }
        }
    }
    // (b) pages by role
    let Ok((hdr, _slot, forest)) = fsck::decode_image(image) else { return out };
    let geo = if hdr.geometry.file_len() != image.len() as u64 { hdr.geometry.recalculate(image.len() as u64).unwrap_or(hdr.geometry) } else { hdr.geometry };
    let ranges = |pages: &[fsck::PageId]| -> Vec<(u64, u64)> { pages.iter().map(|p| (geo.page_offset(*p), geo.page_len(*p))).collect() };
    let data = ranges(&forest.data_pages);
    let sys = ranges(&forest.system_pages);
    let freed: Vec<(u64, u64)> = forest.data_freed.iter().chain(forest.system_freed.iter()).map(|(_, p)| (geo.page_offset(*p), geo.page_len(*p))).collect();
    let all: Vec<(u64, u64)> = data.iter().chain(sys.iter()).copied().collect();
    let ps = geo.page_size as u64;
    for _ in 0..n {
        let pool: &Vec<(u64, u64)> = match rng.below(10) {
            0..=4 => &data,
            5..=7 => &sys,
            8 => &freed,
            _ => &all,
        };
        if pool.is_empty() {
            continue;
        }
        let (off, len) = pool[rng.usize(pool.len())];
        // structure-aware: the offset tables of a B-tree page (documented layout: byte 0 = page
        // type, bytes 2..4 = entry count; a branch then holds (n+1) checksums, (n+1) child numbers
        // and n key ends; a leaf holds its key/value ends from byte 4). A flipped high bit there
        // moves an entry boundary beyond the page, which only a bounds-checking verifier notices.
        if rng.chance(3, 10) && len >= 64 && (off + len) as usize <= image.len() {
            let page = &image[off as usize..(off + len) as usize];
            let n = u16::from_le_bytes([page[2], page[3]]) as u64;
            let (start, words) = match page[0] {
                2 => (8 + 24 * (n + 1), n),
                1 => (4, 2 * n),
                _ => (0, 0),
            };
            if words > 0 && start + 4 * words <= len {
                // the last entries of the table are the ones nothing else cross-checks
                let w = if rng.chance(1, 2) { words - 1 - rng.below(words.min(2)) } else { rng.below(words) };
                let byte = rng.below(4);
                let at = off + start + 4 * w + byte;
                out.push(if rng.chance(2, 3) {
                    Alteration::Bit { off: at, bit: rng.below(8) as u8 }
                } else {
                    Alteration::Byte { off: at, val: rng.next() as u8 }
                });
                continue;
            }
        }
        // bias towards the used head of the page (type byte, counts, offsets, first entries)
        let within = match rng.below(4) {
            0 => rng.below(8.min(len)),
            1 => rng.below(64.min(len)),
            _ => rng.below(len),
        };
        out.push(match rng.below(10) {
            0..=3 => Alteration::Bit { off: off + within, bit: rng.below(8) as u8 },
            4..=5 => Alteration::Byte { off: off + within, val: rng.next() as u8 },
            6..=7 => {
                let l = rng.range(2, 64.min(len - within).max(2)) as u32;
                Alteration::Run { off: off + within, len: l.min((len - within) as u32).max(1), seed: rng.next() }
            }
            _ => {
                let (b, blen) = all[rng.usize(all.len())];
                Alteration::Swap { a: off, b, len: ps.min(len).min(blen) as u32 }
            }
        });
    }
    out
}

pub fn execute_corrupt(plan: &Plan, seed: u64, cases: usize, only: Option<&Extra>) -> RunOut {
    // a replay names the alteration but not which kind of closed image it was applied to: try the
    // cleanly closed file first, then the power-loss image
    if only.is_some() {
        let a = execute_corrupt_on(plan, seed, cases, only, Some(false));
        if a.viol.is_some() {
            return a;
        }
        return execute_corrupt_on(plan, seed, cases, only, Some(true));
    }
    execute_corrupt_on(plan, seed, cases, only, None)
}

fn execute_corrupt_on(plan: &Plan, seed: u64, cases: usize, only: Option<&Extra>, force_base: Option<bool>) -> RunOut {
    let mut out = RunOut {
        viol: None,
        exec: ExecStats::default(),
        disk: Default::default(),
        crash: CrashStats::default(),
        hash: 0,
        lifetimes: 0,
        harness_panic: false,
        known: vec![],
    };
    let mut rng = Rng::new(seed);
    // the closed image to damage: the cleanly closed file, or (one run in three) the file as a
    // power loss at the end of the run leaves it, with nothing un-synced surviving
    let crash_base = rng.chance(1, 3);
    let crash_base = force_base.unwrap_or(crash_base);
    let mut base = Exec::new(plan.cfg.clone(), Mode::Strict);
    let mut crash_image = None;
    let r = catch_unwind(AssertUnwindSafe(|| {
        base.run(plan);
        if crash_base && base.viols.is_empty() && base.db.is_some() {
            crash_image = Some(base.crash_now(&crate::disk::CrashChoice::NoneKept));
        } else {
            base.finish();
        }
    }));
    out.known.extend(base.known.iter().cloned());
    add_exec(&mut out.exec, &base.stats);
    add_disk(&mut out.disk, &base.disk_stats);
    out.hash = base.oplog_hash;
    if r.is_err() || !base.viols.is_empty() {
        out.viol = Some((
            base.viols.first().cloned().unwrap_or(Viol { prop: "C08".into(), tag: "panic".into(), detail: "panic in the fault-free baseline".into() }),
            Extra::None,
        ));
        return out;
    }
    let image = match crash_image {
        Some(i) => i,
        None => base.disk.st().live.clone(),
    };
    if image.is_empty() {
        return out;
    }
    let alts: Vec<Alteration> = match only {
        Some(Extra::Corrupt(a)) => vec![a.clone()],
        Some(_) => vec![],
        None => draw(&mut rng, &image, cases, seed),
    };
    for a in alts {
        let mut img = image.clone();
        if !apply(&mut img, &a) {
            continue;
        }
        out.crash.images += 1;
        if std::env::var_os("SIM_TRACE").is_some() {
            eprintln!("TRACE alteration {}", serde_json::to_string(&a).unwrap());
        }
        match judge(plan, img, &base.versions) {
            Verdict::Violation(mut v) => {
                v.detail.push_str(&format!("; base {}; alteration {a:?}", if crash_base { "power-loss image" } else { "cleanly closed file" }));
                if crate::runner::known_finding(&v).is_some() {
                    let line = format!("KNOWN-FINDING: property={} {}", v.prop, crate::runner::known_finding(&v).unwrap());
                    if !out.known.contains(&line) {
                        out.known.push(line);
                    }
                    continue;
                }
                out.viol = Some((v, Extra::Corrupt(a)));
                return out;
            }
            Verdict::ReportedOpen => out.crash.corrupt_reported_at_open += 1,
            Verdict::ReportedIntegrityErr => out.crash.corrupt_reported_by_integrity_err += 1,
            Verdict::ReportedPanic => out.crash.corrupt_reported_by_panic += 1,
            Verdict::RepairedOk => out.crash.corrupt_repaired_ok_false += 1,
            Verdict::CleanSameState => out.crash.corrupt_harmless_ok_true += 1,
        }
    }
    out
}
