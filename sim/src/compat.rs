//! C19: two implementations -- the working tree and the released redb 3.0.0 (same v3 file
//! format) -- alternate on one simulated disk, in both directions, handing over by clean close
//! or by a crash image.

use crate::crash::CrashStats;
use crate::disk::{CrashChoice, CrashWalker, SimDisk};
use crate::exec::{Exec, ExecStats, Mode, Viol};
use crate::model::{DbState, TableState};
use crate::obs::{expected_obs, Obs, ObsTable};
use crate::plan::{gen_bytes, table_name, End, KeyVal, Kind, Op, Plan, Step, KT};
use crate::rng::Rng;
use crate::runner::{add_disk, add_exec, Extra, RunOut};
use crate::types::OV;
use redb3::{ReadableDatabase as _, ReadableMultimapTable as _, ReadableTable as _, ReadableTableMetadata as _, TableHandle as _, MultimapTableHandle as _};
use std::collections::BTreeSet;
use std::panic::{catch_unwind, AssertUnwindSafe};
use std::sync::Arc;

// ---- typed plumbing for the redb 3.0.0 API (mirrors types.rs)

trait K3: redb3::Key + 'static {
    fn arg<'a>(k: &'a KeyVal) -> Self::SelfType<'a>;
    fn out(v: Self::SelfType<'_>) -> KeyVal;
}
impl K3 for u64 {
    fn arg<'a>(k: &'a KeyVal) -> u64 {
        match k {
            KeyVal::U(u) => *u,
            _ => panic!("key type"),
        }
    }
    fn out(v: u64) -> KeyVal {
        KeyVal::U(v)
    }
}
impl K3 for &'static str {
    fn arg<'a>(k: &'a KeyVal) -> &'a str {
        match k {
            KeyVal::S(s) => s.as_str(),
            _ => panic!("key type"),
        }
    }
    fn out(v: &str) -> KeyVal {
        KeyVal::S(v.to_string())
    }
}
impl K3 for &'static [u8] {
    fn arg<'a>(k: &'a KeyVal) -> &'a [u8] {
        match k {
            KeyVal::B(b) => b.as_slice(),
            _ => panic!("key type"),
        }
    }
    fn out(v: &[u8]) -> KeyVal {
        KeyVal::B(v.to_vec())
    }
}
trait V3: redb3::Value + 'static {
    fn arg<'a>(v: &'a OV) -> Self::SelfType<'a>;
    fn out(v: Self::SelfType<'_>) -> OV;
}
impl V3 for u64 {
    fn arg<'a>(v: &'a OV) -> u64 {
        match v {
            OV::U(u) => *u,
            _ => panic!("value type"),
        }
    }
    fn out(v: u64) -> OV {
        OV::U(v)
    }
}
impl V3 for &'static [u8] {
    fn arg<'a>(v: &'a OV) -> &'a [u8] {
        match v {
            OV::B(b) => b.as_slice(),
            _ => panic!("value type"),
        }
    }
    fn out(v: &[u8]) -> OV {
        OV::B(v.to_vec())
    }
}

fn dump_t<K: K3, V: V3>(txn: &redb3::ReadTransaction, name: &str) -> Result<Option<Vec<(KeyVal, OV)>>, String> {
    let def: redb3::TableDefinition<K, V> = redb3::TableDefinition::new(name);
    match txn.open_table(def) {
        Ok(t) => {
            let mut out = vec![];
            for r in t.iter().map_err(|e| e.to_string())? {
                let (k, v) = r.map_err(|e| e.to_string())?;
                out.push((K::out(k.value()), V::out(v.value())));
            }
            let n = t.len().map_err(|e| e.to_string())?;
            if n != out.len() as u64 {
                return Err(format!("redb 3.0.0: table {name} len() {n} != entries {}", out.len()));
            }
            // point lookups and bounded seeks route through the (possibly shortened) routing keys,
            // which a full scan never compares
            for (i, (k, v)) in out.iter().enumerate() {
                let got = t.get(K::arg(k)).map_err(|e| e.to_string())?.map(|g| V::out(g.value()));
                if got.as_ref() != Some(v) {
                    return Err(format!("redb 3.0.0: table {name}: get({k:?}) does not find the entry its scan returned"));
                }
                if i % 4 == 0 {
                    let first = t.range(K::arg(k)..).map_err(|e| e.to_string())?.next();
                    let fk = match first {
                        Some(r) => Some(K::out(r.map_err(|e| e.to_string())?.0.value())),
                        None => None,
                    };
                    if fk.as_ref() != Some(k) {
                        return Err(format!("redb 3.0.0: table {name}: range({k:?}..) starts at {fk:?}"));
                    }
                }
            }
            Ok(Some(out))
        }
        Err(redb3::TableError::TableTypeMismatch { .. }) | Err(redb3::TableError::TypeDefinitionChanged { .. }) => Ok(None),
        Err(e) => Err(format!("redb 3.0.0 open {name}: {e}")),
    }
}

fn dump_m<K: K3, V: K3>(txn: &redb3::ReadTransaction, name: &str) -> Result<Option<Vec<(KeyVal, Vec<KeyVal>)>>, String> {
    let def: redb3::MultimapTableDefinition<K, V> = redb3::MultimapTableDefinition::new(name);
    match txn.open_multimap_table(def) {
        Ok(t) => {
            let mut out = vec![];
            for r in t.iter().map_err(|e| e.to_string())? {
                let (k, vals) = r.map_err(|e| e.to_string())?;
                let mut vs = vec![];
                for v in vals {
                    vs.push(V::out(v.map_err(|e| e.to_string())?.value()));
                }
                out.push((K::out(k.value()), vs));
            }
            for (k, vs) in out.iter() {
                let mut got = vec![];
                for v in t.get(K::arg(k)).map_err(|e| e.to_string())? {
                    got.push(V::out(v.map_err(|e| e.to_string())?.value()));
                }
                if got != *vs {
                    return Err(format!("redb 3.0.0: multimap {name}: get({k:?}) differs from what its scan returned"));
                }
            }
            Ok(Some(out))
        }
        Err(redb3::TableError::TableTypeMismatch { .. }) | Err(redb3::TableError::TypeDefinitionChanged { .. }) => Ok(None),
        Err(e) => Err(format!("redb 3.0.0 open multimap {name}: {e}")),
    }
}

/// Everything the 3.0.0 release reads from the database, in the shape of obs::Obs.
fn observe3(db: &redb3::Database) -> Result<Obs, String> {
    let txn = db.begin_read().map_err(|e| e.to_string())?;
    let mut obs = Obs::new();
    let names: Vec<String> = txn.list_tables().map_err(|e| e.to_string())?.map(|h| h.name().to_string()).collect();
    for name in names {
        let t = if let Some(d) = dump_t::<u64, &'static [u8]>(&txn, &name)? {
            ObsTable::T(Kind::TUB, d)
        } else if let Some(d) = dump_t::<&'static str, &'static [u8]>(&txn, &name)? {
            ObsTable::T(Kind::TSB, d)
        } else if let Some(d) = dump_t::<&'static [u8], u64>(&txn, &name)? {
            ObsTable::T(Kind::TBU, d)
        } else if let Some(d) = dump_t::<&'static str, u64>(&txn, &name)? {
            ObsTable::T(Kind::TSU, d)
        } else {
            return Err(format!("redb 3.0.0: no known type opens table {name}"));
        };
        obs.insert(name, t);
    }
    let names: Vec<String> = txn.list_multimap_tables().map_err(|e| e.to_string())?.map(|h| h.name().to_string()).collect();
    for name in names {
        let t = if let Some(d) = dump_m::<u64, &'static [u8]>(&txn, &name)? {
            ObsTable::M(Kind::MUB, d)
        } else if let Some(d) = dump_m::<&'static str, u64>(&txn, &name)? {
            ObsTable::M(Kind::MSU, d)
        } else {
            return Err(format!("redb 3.0.0: no known type opens multimap {name}"));
        };
        obs.insert(name, t);
    }
    Ok(obs)
}

fn psp3(db: &redb3::Database) -> Result<Vec<u64>, String> {
    let t = db.begin_write().map_err(|e| e.to_string())?;
    let ids: Vec<u64> = t.list_persistent_savepoints().map_err(|e| e.to_string())?.collect();
    t.abort().map_err(|e| e.to_string())?;
    Ok(ids)
}

fn viol(tag: &str, detail: String) -> Viol {
    Viol { prop: "C19".into(), tag: tag.into(), detail }
}

/// redb 3.0.0 opens an image written by the working tree.
fn old_reads(image: Vec<u8>, cache: u64, versions: &[Arc<DbState>], allowed: &BTreeSet<usize>, extend: bool) -> Result<Option<(Vec<u8>, usize)>, Viol> {
    let disk = SimDisk::new(image);
    disk.st().record = false;
    let r = catch_unwind(AssertUnwindSafe(|| -> Result<Option<usize>, Viol> {
        let mut b = redb3::Builder::new();
        b.set_cache_size(cache as usize);
        let len_before = disk.live_len();
        let mut db = b.create_with_backend(disk.clone()).map_err(|e| viol("old-open", format!("redb 3.0.0 cannot open the file written by this code: {e}")))?;
        // redb 3.0.0 has a defect of its own (shown on files it wrote itself, see DESIGN.md): when
        // its open grows a small file without committing, its check_integrity() reports Ok(false)
        // because the header layout is stale. That says nothing about the file it was given.
        let old_release_grew_file = disk.live_len() != len_before;
        // the integrity check comes first: in 3.0.0 an aborted write transaction (needed below to
        // list the savepoints) can by itself make a later check_integrity() report Ok(false)
        match db.check_integrity() {
            Ok(true) => {}
            Ok(false) if old_release_grew_file => {}
            Ok(false) => return Err(viol("old-integrity", "redb 3.0.0 check_integrity() returned Ok(false) on the file written by this code".into())),
            Err(e) => return Err(viol("old-integrity", format!("redb 3.0.0 check_integrity() failed: {e}"))),
        }
        let obs = observe3(&db).map_err(|e| viol("old-read", e))?;
        let ids = psp3(&db).map_err(|e| viol("old-read", e))?;
        let mut landed = None;
        for v in allowed.iter().rev() {
            let st = &versions[*v];
            if expected_obs(&st.tables) == obs && st.psp.keys().copied().collect::<Vec<_>>() == ids {
                landed = Some(*v);
                break;
            }
        }
        let Some(v) = landed else {
            return Err(viol("old-contents", format!("redb 3.0.0 sees contents equal to none of the admissible versions {allowed:?} ({} tables, savepoints {ids:?})", obs.len())));
        };
        if extend {
            // the old release writes into the file, then this code must still read everything
            let t = db.begin_write().map_err(|e| viol("old-write", e.to_string()))?;
            {
                let def: redb3::TableDefinition<u64, &[u8]> = redb3::TableDefinition::new("written_by_3_0_0");
                let mut tb = t.open_table(def).map_err(|e| viol("old-write", e.to_string()))?;
                for i in 0..20u64 {
                    tb.insert(i, gen_bytes(crate::plan::Val { id: 900_000 + i, len: 100 + (i as u32 * 53) % 700 }).as_slice()).map_err(|e| viol("old-write", e.to_string()))?;
                }
            }
            t.commit().map_err(|e| viol("old-write", e.to_string()))?;
        }
        drop(db);
        Ok(Some(v))
    }));
    match r {
        Err(_) => Err(viol("old-panic", format!("redb 3.0.0 panicked on the file written by this code: {}", crate::runner::last_panic()))),
        Ok(Err(v)) => Err(v),
        Ok(Ok(Some(v))) => Ok(Some((disk.st().live.clone(), v))),
        Ok(Ok(None)) => Ok(None),
    }
}

/// Direction 1: the working tree writes, 3.0.0 reads (and extends), the working tree reads again.
fn new_to_old(plan: &Plan, rng: &mut Rng, out: &mut RunOut) -> Option<Viol> {
    let mut ex = Exec::new(plan.cfg.clone(), Mode::Strict);
    ex.keep_lifetimes = true;
    let r = catch_unwind(AssertUnwindSafe(|| {
        ex.run(plan);
        ex.finish();
    }));
    out.known.extend(ex.known.iter().cloned());
    add_exec(&mut out.exec, &ex.stats);
    add_disk(&mut out.disk, &ex.disk_stats);
    out.hash = ex.oplog_hash;
    if r.is_err() {
        return Some(Viol { prop: "C08".into(), tag: "panic".into(), detail: "panic in the writing run".into() });
    }
    if let Some(v) = ex.viols.first() {
        return Some(v.clone());
    }
    let Some(life) = ex.lifetimes.last() else { return None };
    // (a) clean close
    let clean = ex.disk.st().live.clone();
    let allowed: BTreeSet<usize> = [ex.cur].into_iter().collect();
    out.crash.images += 1;
    match old_reads(clean, plan.cfg.cache, &ex.versions, &allowed, true) {
        Err(v) => return Some(v),
        Ok(Some((image, v))) => {
            // back to the working tree: everything, plus what 3.0.0 wrote
            let mut back = Exec::new(plan.cfg.clone(), Mode::Strict);
            back.versions = ex.versions.clone();
            let mut st = (*ex.versions[v]).clone();
            let mut m = std::collections::BTreeMap::new();
            for i in 0..20u64 {
                m.insert(KeyVal::U(i), crate::plan::Val { id: 900_000 + i, len: 100 + (i as u32 * 53) % 700 });
            }
            st.tables.insert("written_by_3_0_0".into(), Arc::new(TableState::T(Kind::TUB, m)));
            back.versions.push(Arc::new(st));
            back.cur = back.versions.len() - 1;
            back.allowed = [back.cur].into_iter().collect();
            let r = catch_unwind(AssertUnwindSafe(|| {
                if let Err(e) = back.open_image(image, plan.cfg.cache) {
                    back.viol("C19", "reopen-after-old", format!("this code cannot reopen the file after redb 3.0.0 wrote to it: {e}"));
                    return;
                }
                back.audit("C19");
                back.check_integrity();
                back.finish();
            }));
            if r.is_err() {
                return Some(viol("reopen-after-old", "panic reopening the file after redb 3.0.0 wrote to it".into()));
            }
            if let Some(v) = back.viols.first() {
                let mut v = v.clone();
                v.prop = "C19".into();
                return Some(v);
            }
        }
        Ok(None) => {}
    }
    // (b) crash images of the last lifetime
    let (allowed_at, first_open_end) = crate::crash::allowed_along(life);
    let from = if life.created { first_open_end } else { 0 };
    if life.log.len() <= from {
        return None;
    }
    for _ in 0..3 {
        let k = from + rng.usize(life.log.len() - from + 1);
        let mut w = CrashWalker::new(life.base.clone(), &life.log);
        w.advance_to(k);
        let choice = match rng.below(3) {
            0 => CrashChoice::AllKept,
            1 => CrashChoice::NoneKept,
            _ => CrashChoice::Random(rng.next()),
        };
        let (img, _) = w.image(&choice);
        out.crash.images += 1;
        out.crash.nested_images += 1;
        // "crash-recovered file": this code recovers its own crash image and closes it cleanly;
        // the recovered file is what the old release gets
        let mut rec = Exec::new(plan.cfg.clone(), Mode::Strict);
        rec.versions = ex.versions.clone();
        rec.allowed = (*allowed_at[k]).clone();
        rec.cur = *rec.allowed.iter().next_back().unwrap();
        let r = catch_unwind(AssertUnwindSafe(|| {
            if let Err(e) = rec.open_image(img, plan.cfg.cache) {
                rec.viol("C01", "recovery-open", format!("opening the crash image failed: {e}"));
                return;
            }
            if rec.resync_after_recovery("C01") {
                rec.finish();
            }
        }));
        if r.is_err() || !rec.viols.is_empty() {
            // a recovery problem of this code is C01's business and is reported there
            return rec.viols.first().cloned().or(Some(Viol { prop: "C01".into(), tag: "recovery-panic".into(), detail: "panic while recovering a crash image".into() }));
        }
        let recovered = rec.disk.st().live.clone();
        let landed: BTreeSet<usize> = [rec.cur].into_iter().collect();
        if let Err(mut v) = old_reads(recovered, plan.cfg.cache, &rec.versions, &landed, false) {
            v.detail = format!("{} [file recovered by this code from the crash image at log index {k}, {choice:?}]", v.detail);
            return Some(v);
        }
    }
    None
}

// ---- Direction 2: redb 3.0.0 writes (a reduced interpreter of the same plans), this code reads.

fn apply3(txn: &redb3::WriteTransaction, pend: &mut DbState, op: &Op) -> Result<(), String> {
    fn tm<'a>(pend: &'a mut DbState, name: &str, kind: Kind) -> Option<&'a mut TableState> {
        let e = pend.tables.entry(name.to_string()).or_insert_with(|| Arc::new(TableState::new(kind)));
        if e.kind() != kind {
            return None;
        }
        Some(Arc::make_mut(e))
    }
    fn ins<K: K3, V: V3>(txn: &redb3::WriteTransaction, name: &str, k: &KeyVal, v: &OV) -> Result<(), String> {
        let def: redb3::TableDefinition<K, V> = redb3::TableDefinition::new(name);
        let mut t = txn.open_table(def).map_err(|e| e.to_string())?;
        t.insert(K::arg(k), V::arg(v)).map_err(|e| e.to_string())?;
        Ok(())
    }
    fn rem<K: K3, V: V3>(txn: &redb3::WriteTransaction, name: &str, k: &KeyVal) -> Result<(), String> {
        let def: redb3::TableDefinition<K, V> = redb3::TableDefinition::new(name);
        let mut t = txn.open_table(def).map_err(|e| e.to_string())?;
        t.remove(K::arg(k)).map_err(|e| e.to_string())?;
        Ok(())
    }
    fn mins<K: K3, V: K3>(txn: &redb3::WriteTransaction, name: &str, k: &KeyVal, v: &KeyVal, insert: bool) -> Result<(), String> {
        let def: redb3::MultimapTableDefinition<K, V> = redb3::MultimapTableDefinition::new(name);
        let mut t = txn.open_multimap_table(def).map_err(|e| e.to_string())?;
        if insert {
            t.insert(K::arg(k), V::arg(v)).map_err(|e| e.to_string())?;
        } else {
            t.remove(K::arg(k), V::arg(v)).map_err(|e| e.to_string())?;
        }
        Ok(())
    }
    match op {
        Op::Insert { t, k, v } | Op::InsertReserve { t, k, v } => {
            if t.kind.is_multimap() {
                return Ok(());
            }
            let name = table_name(t.name);
            let Some(k) = crate::exec::coerce_key(k, t.kind.key_type()) else { return Ok(()) };
            if pend.tables.get(&name).is_some_and(|x| x.kind() != t.kind) {
                return Ok(());
            }
            let ov = crate::types::expect_ov(*v, t.kind.val_is_bytes());
            match t.kind {
                Kind::TUB => ins::<u64, &'static [u8]>(txn, &name, &k, &ov)?,
                Kind::TSB => ins::<&'static str, &'static [u8]>(txn, &name, &k, &ov)?,
                Kind::TBU => ins::<&'static [u8], u64>(txn, &name, &k, &ov)?,
                Kind::TSU => ins::<&'static str, u64>(txn, &name, &k, &ov)?,
                _ => unreachable!(),
            }
            tm(pend, &name, t.kind).unwrap().map_mut().insert(k, *v);
        }
        Op::Remove { t, k } => {
            if t.kind.is_multimap() {
                return Ok(());
            }
            let name = table_name(t.name);
            let Some(k) = crate::exec::coerce_key(k, t.kind.key_type()) else { return Ok(()) };
            if pend.tables.get(&name).is_some_and(|x| x.kind() != t.kind) {
                return Ok(());
            }
            match t.kind {
                Kind::TUB => rem::<u64, &'static [u8]>(txn, &name, &k)?,
                Kind::TSB => rem::<&'static str, &'static [u8]>(txn, &name, &k)?,
                Kind::TBU => rem::<&'static [u8], u64>(txn, &name, &k)?,
                Kind::TSU => rem::<&'static str, u64>(txn, &name, &k)?,
                _ => unreachable!(),
            }
            tm(pend, &name, t.kind).unwrap().map_mut().remove(&k);
        }
        Op::MmInsert { t, k, v } | Op::MmRemove { t, k, v } => {
            if !t.kind.is_multimap() {
                return Ok(());
            }
            let name = table_name(t.name);
            let (Some(k), Some(v)) = (crate::exec::coerce_key(k, t.kind.key_type()), crate::exec::coerce_key(v, t.kind.val_type())) else { return Ok(()) };
            if pend.tables.get(&name).is_some_and(|x| x.kind() != t.kind) {
                return Ok(());
            }
            let insert = matches!(op, Op::MmInsert { .. });
            match t.kind {
                Kind::MUB => mins::<u64, &'static [u8]>(txn, &name, &k, &v, insert)?,
                Kind::MSU => mins::<&'static str, u64>(txn, &name, &k, &v, insert)?,
                _ => unreachable!(),
            }
            let m = tm(pend, &name, t.kind).unwrap().mm_mut();
            if insert {
                m.entry(k).or_default().insert(v);
            } else if let Some(s) = m.get_mut(&k) {
                s.remove(&v);
                if s.is_empty() {
                    m.remove(&k);
                }
            }
        }
        // table deletion is left out: redb 3.0.0 itself panics ("Page is uncommitted") when a table
        // created in a transaction is deleted in the same transaction -- a defect of the old release
        _ => {}
    }
    let _ = KT::U;
    Ok(())
}

fn old_to_new(plan: &Plan, rng: &mut Rng, out: &mut RunOut) -> Option<Viol> {
    let disk = SimDisk::new(vec![]);
    let mut versions: Vec<Arc<DbState>> = vec![Arc::new(DbState::default())];
    let mut allowed: BTreeSet<usize> = [0usize].into_iter().collect();
    // (log index, admissible versions) after each commit, for crash hand-overs
    let mut marks: Vec<(usize, BTreeSet<usize>)> = vec![];
    let r = catch_unwind(AssertUnwindSafe(|| -> Result<(), String> {
        let mut b = redb3::Builder::new();
        b.set_cache_size(plan.cfg.cache as usize);
        let db = b.create_with_backend(disk.clone()).map_err(|e| e.to_string())?;
        marks.push((disk.st().log.len(), allowed.clone()));
        for step in &plan.steps {
            let Step::Txn(t) = step else { continue };
            let mut txn = db.begin_write().map_err(|e| e.to_string())?;
            let durable = t.durable;
            if !durable {
                txn.set_durability(redb3::Durability::None).map_err(|e| e.to_string())?;
            }
            txn.set_two_phase_commit(t.two_phase);
            txn.set_quick_repair(t.quick_repair);
            let mut pend = (**versions.last().unwrap()).clone();
            let mut first = true;
            for op in &t.ops {
                if first && matches!(op, Op::SpPersistent) && durable && pend.psp.len() < 2 {
                    let id = txn.persistent_savepoint().map_err(|e| e.to_string())?;
                    pend.psp.insert(id, crate::model::PSp { seq: id, snap: Arc::new(versions.last().unwrap().tables.clone()) });
                }
                first = false;
                apply3(&txn, &mut pend, op)?;
            }
            if t.end == End::Commit {
                let v = versions.len();
                versions.push(Arc::new(pend));
                allowed.insert(v);
                let before = (disk.st().log.len(), allowed.clone());
                marks.push(before);
                txn.commit().map_err(|e| e.to_string())?;
                if durable {
                    allowed.retain(|x| *x >= v);
                }
                marks.push((disk.st().log.len(), allowed.clone()));
            } else {
                txn.abort().map_err(|e| e.to_string())?;
            }
        }
        drop(db);
        Ok(())
    }));
    match r {
        Err(_) => return Some(viol("old-writer-panic", format!("redb 3.0.0 panicked while writing: {}", crate::runner::last_panic()))),
        Ok(Err(e)) => return Some(viol("old-writer-error", format!("redb 3.0.0 failed while writing: {e}"))),
        Ok(Ok(())) => {}
    }
    let cur = versions.len() - 1;
    let (log, live) = {
        let s = disk.st();
        (s.log.clone(), s.live.clone())
    };
    let mut cases: Vec<(Vec<u8>, BTreeSet<usize>, String)> = vec![(live, [cur].into_iter().collect(), "clean close".into())];
    for _ in 0..3 {
        if marks.len() < 2 {
            break;
        }
        // crash at a point whose admissible set is known: between two marks the later one's set
        // joined with the earlier one's is a sound over-approximation
        let i = 1 + rng.usize(marks.len() - 1);
        let (lo, hi) = (marks[i - 1].0, marks[i].0);
        let k = lo + rng.usize(hi - lo + 1);
        let mut al = marks[i - 1].1.clone();
        al.extend(marks[i].1.iter().copied());
        let mut w = CrashWalker::new(vec![], &log);
        w.advance_to(k.min(log.len()));
        let choice = match rng.below(3) {
            0 => CrashChoice::AllKept,
            1 => CrashChoice::NoneKept,
            _ => CrashChoice::Random(rng.next()),
        };
        let (img, _) = w.image(&choice);
        if img.len() < 4096 * 2 {
            continue;
        }
        // "crash-recovered file": redb 3.0.0 recovers its own crash image and closes it; whatever
        // goes wrong inside the old release's own recovery is not this property's business
        let d3 = SimDisk::new(img);
        d3.st().record = false;
        let rec = catch_unwind(AssertUnwindSafe(|| -> Option<usize> {
            let db = redb3::Builder::new().create_with_backend(d3.clone()).ok()?;
            let obs = observe3(&db).ok()?;
            let ids = psp3(&db).ok()?;
            let v = al.iter().rev().find(|v| expected_obs(&versions[**v].tables) == obs && versions[**v].psp.keys().copied().collect::<Vec<_>>() == ids).copied();
            drop(db);
            v
        }));
        let Ok(Some(v)) = rec else { continue };
        let recovered = d3.st().live.clone();
        cases.push((recovered, [v].into_iter().collect(), format!("file recovered by redb 3.0.0 from its crash image at log index {k}, {choice:?}")));
    }
    for (img, al, what) in cases {
        out.crash.images += 1;
        let mut back = Exec::new(plan.cfg.clone(), Mode::Strict);
        back.cfg.region_pages = None;
        back.versions = versions.clone();
        back.allowed = al.clone();
        back.cur = *al.iter().next_back().unwrap();
        let r = catch_unwind(AssertUnwindSafe(|| {
            if let Err(e) = back.open_image(img, plan.cfg.cache) {
                back.viol("C19", "new-open", format!("this code cannot open the file written by redb 3.0.0 ({what}): {e}"));
                return;
            }
            if !back.resync_after_recovery("C19") {
                return;
            }
            back.after_open_checks("C19", true);
            back.verify_psp_contents();
            back.check_integrity();
            back.finish();
        }));
        if r.is_err() {
            return Some(viol("new-panic", format!("this code panicked on the file written by redb 3.0.0 ({what}): {}", crate::runner::last_panic())));
        }
        out.known.extend(back.known.iter().cloned());
        if let Some(v) = back.viols.first() {
            let mut v = v.clone();
            v.detail = format!("{} [file written by redb 3.0.0, {what}]", v.detail);
            v.prop = "C19".into();
            return Some(v);
        }
    }
    None
}

pub fn execute_compat(plan: &Plan, seed: u64, _images: usize, _only: Option<&Extra>) -> RunOut {
    let mut out = RunOut {
        viol: None,
        exec: ExecStats::default(),
        disk: Default::default(),
        crash: CrashStats::default(),
        hash: 0,
        lifetimes: 0,
        harness_panic: false,
        known: vec![],
    };
    let mut rng = Rng::new(seed);
    if let Some(v) = new_to_old(plan, &mut rng, &mut out) {
        out.viol = Some((v, Extra::None));
        return out;
    }
    if let Some(v) = old_to_new(plan, &mut rng, &mut out) {
        out.viol = Some((v, Extra::None));
    }
    out
}
