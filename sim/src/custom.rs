//! User-defined key/value types that share a type name but differ in width (C17: "opening a table
//! with different key or value types is refused with the corresponding error instead of
//! reinterpreting its bytes"). Built-in types cannot reach TypeDefinitionChanged because their
//! names differ whenever their widths do; these can.

use redb::{Key, ReadableTable, ReadableTableMetadata, TableDefinition, TableError, TypeName, Value, WriteTransaction};
use std::cmp::Ordering;

/// N: 0 => name "verif::X", otherwise "verif::Y". W: fixed width in bytes, 0 => variable width.
#[derive(Debug)]
pub struct Cust<const N: u8, const W: usize>;

impl<const N: u8, const W: usize> Value for Cust<N, W> {
    type SelfType<'a> = Vec<u8>;
    type AsBytes<'a> = Vec<u8>;
    fn fixed_width() -> Option<usize> {
        if W == 0 { None } else { Some(W) }
    }
    fn from_bytes<'a>(data: &'a [u8]) -> Vec<u8>
    where
        Self: 'a,
    {
        data.to_vec()
    }
    fn as_bytes<'a, 'b: 'a>(value: &'a Vec<u8>) -> Vec<u8>
    where
        Self: 'b,
    {
        value.clone()
    }
    fn type_name() -> TypeName {
        TypeName::new(if N == 0 { "verif::X" } else { "verif::Y" })
    }
}

impl<const N: u8, const W: usize> Key for Cust<N, W> {
    fn compare(a: &[u8], b: &[u8]) -> Ordering {
        a.cmp(b)
    }
}

/// A user-defined type that calls itself "u32" (same name and width as the built-in, but flagged
/// user-defined in the stored definition): `(u64, FakeU32)` must not open a `(u64, u32)` table.
#[derive(Debug)]
pub struct FakeU32;

impl Value for FakeU32 {
    type SelfType<'a> = u32;
    type AsBytes<'a> = [u8; 4];
    fn fixed_width() -> Option<usize> {
        Some(4)
    }
    fn from_bytes<'a>(data: &'a [u8]) -> u32
    where
        Self: 'a,
    {
        u32::from_le_bytes(data.try_into().unwrap())
    }
    fn as_bytes<'a, 'b: 'a>(value: &'a u32) -> [u8; 4]
    where
        Self: 'b,
    {
        value.to_le_bytes()
    }
    fn type_name() -> TypeName {
        TypeName::new("u32")
    }
}

impl Key for FakeU32 {
    fn compare(a: &[u8], b: &[u8]) -> Ordering {
        Self::from_bytes(a).cmp(&Self::from_bytes(b))
    }
}

pub const PROBE_TABLE: &str = "zz_type_probe";
pub const VARIANTS: u8 = 8;

/// what the catalog model knows about a probe type: (family, name, width); two types are the same
/// iff all three agree; same family and name with another width is a changed definition
pub trait Probe: Key + 'static {
    const ID: (u8, u8, usize);
    fn with<R>(f: impl FnOnce(&Self::SelfType<'_>) -> R) -> R;
}

impl<const N: u8, const W: usize> Probe for Cust<N, W> {
    const ID: (u8, u8, usize) = (0, N, W);
    fn with<R>(f: impl FnOnce(&Vec<u8>) -> R) -> R {
        let v: Vec<u8> = if W == 0 { b"variable-width".to_vec() } else { (0..W as u8).map(|i| i.wrapping_mul(37).wrapping_add(5)).collect() };
        f(&v)
    }
}
impl Probe for (u64, u32) {
    const ID: (u8, u8, usize) = (1, 0, 12);
    fn with<R>(f: impl FnOnce(&(u64, u32)) -> R) -> R {
        f(&(7, 7))
    }
}
impl Probe for (u64, FakeU32) {
    const ID: (u8, u8, usize) = (2, 0, 12);
    fn with<R>(f: impl FnOnce(&(u64, u32)) -> R) -> R {
        f(&(7, 7))
    }
}
impl Probe for (FakeU32, u64) {
    const ID: (u8, u8, usize) = (3, 0, 12);
    fn with<R>(f: impl FnOnce(&(u32, u64)) -> R) -> R {
        f(&(7, 7))
    }
}
impl Probe for (u32, u64) {
    const ID: (u8, u8, usize) = (4, 0, 12);
    fn with<R>(f: impl FnOnce(&(u32, u64)) -> R) -> R {
        f(&(7, 7))
    }
}

#[derive(Debug, PartialEq)]
pub enum ProbeOutcome {
    /// behaved as the catalog model says
    Ok,
    /// a storage error surfaced (only meaningful on faulty runs)
    Storage(String),
    /// the catalog misbehaved
    Bad(String),
}

fn expect(made: (u8, u8, usize), re: (u8, u8, usize)) -> &'static str {
    if made == re {
        "Ok"
    } else if made.0 == re.0 && made.1 == re.1 {
        "TypeDefinitionChanged"
    } else {
        "TypeMismatch"
    }
}

fn class(e: &TableError) -> &'static str {
    match e {
        TableError::TableTypeMismatch { .. } => "TypeMismatch",
        TableError::TypeDefinitionChanged { .. } => "TypeDefinitionChanged",
        TableError::Storage(_) => "Storage",
        _ => "other",
    }
}

fn probe2<T1: Probe, T2: Probe>(txn: &WriteTransaction, as_key: bool) -> ProbeOutcome {
    let exp = expect(T1::ID, T2::ID);
    macro_rules! st {
        ($e:expr) => {
            match $e {
                Ok(x) => x,
                Err(e) => return ProbeOutcome::Storage(e.to_string()),
            }
        };
    }
    let got: &'static str;
    if as_key {
        {
            let mut t = match txn.open_table(TableDefinition::<T1, u64>::new(PROBE_TABLE)) {
                Ok(t) => t,
                Err(TableError::Storage(e)) => return ProbeOutcome::Storage(e.to_string()),
                Err(e) => return ProbeOutcome::Bad(format!("creating the probe table failed: {e}")),
            };
            st!(T1::with(|s| t.insert(s, 7u64).map(|_| ())));
        }
        got = match txn.open_table(TableDefinition::<T2, u64>::new(PROBE_TABLE)) {
            Ok(t) => {
                if exp == "Ok" {
                    let v = st!(T2::with(|s| t.get(s).map(|g| g.map(|g| g.value()))));
                    if v != Some(7) {
                        return ProbeOutcome::Bad(format!("probe table lost its entry: {v:?}"));
                    }
                }
                "Ok"
            }
            Err(e) => class(&e),
        };
    } else {
        {
            let mut t = match txn.open_table(TableDefinition::<u64, T1>::new(PROBE_TABLE)) {
                Ok(t) => t,
                Err(TableError::Storage(e)) => return ProbeOutcome::Storage(e.to_string()),
                Err(e) => return ProbeOutcome::Bad(format!("creating the probe table failed: {e}")),
            };
            st!(T1::with(|s| t.insert(7u64, s).map(|_| ())));
        }
        got = match txn.open_table(TableDefinition::<u64, T2>::new(PROBE_TABLE)) {
            Ok(t) => {
                if exp == "Ok" {
                    let n = st!(t.len());
                    let present = st!(t.get(7u64)).is_some();
                    if n != 1 || !present {
                        return ProbeOutcome::Bad(format!("probe table lost its entry: len {n}, present {present}"));
                    }
                }
                "Ok"
            }
            Err(e) => class(&e),
        };
    }
    if got == "Storage" {
        return ProbeOutcome::Storage("open".into());
    }
    let deleted = st!(match txn.delete_table(TableDefinition::<u64, u64>::new(PROBE_TABLE)) {
        Ok(b) => Ok(b),
        Err(TableError::Storage(e)) => Err(e),
        Err(e) => return ProbeOutcome::Bad(format!("deleting the probe table failed: {e}")),
    });
    if got != exp {
        let side = if as_key { "key" } else { "value" };
        return ProbeOutcome::Bad(format!(
            "a table created with {side} type {} was reopened with {side} type {}: got {got}, expected {exp}",
            std::any::type_name::<T1>(),
            std::any::type_name::<T2>()
        ));
    }
    if !deleted {
        return ProbeOutcome::Bad("delete_table of the probe table returned false".into());
    }
    ProbeOutcome::Ok
}

fn probe1<T1: Probe>(txn: &WriteTransaction, re: u8, as_key: bool) -> ProbeOutcome {
    match re % VARIANTS {
        0 => probe2::<T1, Cust<0, 8>>(txn, as_key),
        1 => probe2::<T1, Cust<0, 4>>(txn, as_key),
        2 => probe2::<T1, Cust<0, 0>>(txn, as_key),
        3 => probe2::<T1, Cust<1, 8>>(txn, as_key),
        4 => probe2::<T1, (u64, u32)>(txn, as_key),
        5 => probe2::<T1, (u64, FakeU32)>(txn, as_key),
        6 => probe2::<T1, (FakeU32, u64)>(txn, as_key),
        _ => probe2::<T1, (u32, u64)>(txn, as_key),
    }
}

/// Create the probe table with variant `made`, reopen it as variant `re`, delete it again.
pub fn type_probe(txn: &WriteTransaction, made: u8, re: u8, as_key: bool) -> ProbeOutcome {
    match made % VARIANTS {
        0 => probe1::<Cust<0, 8>>(txn, re, as_key),
        1 => probe1::<Cust<0, 4>>(txn, re, as_key),
        2 => probe1::<Cust<0, 0>>(txn, re, as_key),
        3 => probe1::<Cust<1, 8>>(txn, re, as_key),
        4 => probe1::<(u64, u32)>(txn, re, as_key),
        5 => probe1::<(u64, FakeU32)>(txn, re, as_key),
        6 => probe1::<(FakeU32, u64)>(txn, re, as_key),
        _ => probe1::<(u32, u64)>(txn, re, as_key),
    }
}
