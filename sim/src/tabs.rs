//! Type-erased wrappers around redb's typed tables so that the executor can dispatch on the
//! plan's dynamic `Kind`. Each wrapper is generic once; the executor sees trait objects.

use crate::model::pred_selects;
use crate::plan::{Bd, KeyVal, Kind, Pred};
use crate::types::{Kk, Vv, OV};
use redb::{
    MultimapTable, MultimapTableDefinition, ReadOnlyMultimapTable, ReadOnlyTable, ReadTransaction,
    ReadableMultimapTable, ReadableTable, ReadableTableMetadata, StorageError, Table,
    TableDefinition, TableError, WriteTransaction,
};
use std::ops::Bound;
use std::panic::{catch_unwind, AssertUnwindSafe};

pub type SRes<T> = Result<T, StorageError>;
pub type Pair = (KeyVal, OV);
pub type DynIter = Box<dyn DoubleEndedIterator<Item = SRes<Pair>>>;
pub type DynGuard = Box<dyn Fn() -> OV>;

fn bd<'a, K: Kk>(b: &'a Bd) -> Bound<K::SelfType<'a>> {
    match b {
        Bd::Unb => Bound::Unbounded,
        Bd::Inc(k) => Bound::Included(K::arg(k)),
        Bd::Exc(k) => Bound::Excluded(K::arg(k)),
    }
}

fn drain<I, A, B>(mut it: I, pattern: u32, take: u32, f: impl Fn(A, B) -> Pair) -> SRes<Vec<Pair>>
where
    I: DoubleEndedIterator<Item = SRes<(A, B)>>,
{
    let mut out = vec![];
    let mut i = 0u32;
    while (out.len() as u32) < take {
        let nx = if (pattern >> (i % 32)) & 1 == 1 { it.next_back() } else { it.next() };
        i += 1;
        match nx {
            None => break,
            Some(r) => {
                let (a, b) = r?;
                out.push(f(a, b));
            }
        }
    }
    Ok(out)
}

/// What a predicate-driven operation did
pub enum PredOutcome<T> {
    Done(SRes<T>),
    Panicked,
}

// ---------------------------------------------------------------------------------------------
// write-side tables

pub trait WTab {
    fn insert(&mut self, k: &KeyVal, v: &OV) -> SRes<Option<OV>>;
    fn insert_reserve(&mut self, k: &KeyVal, v: &OV) -> Option<SRes<()>>;
    fn get(&self, k: &KeyVal) -> SRes<Option<OV>>;
    fn get_mut_set(&mut self, k: &KeyVal, v: &OV) -> SRes<Option<OV>>;
    fn entry(&mut self, k: &KeyVal, v: &OV, mode: u8) -> SRes<Option<OV>>;
    fn remove(&mut self, k: &KeyVal) -> SRes<Option<OV>>;
    fn pop_first(&mut self) -> SRes<Option<Pair>>;
    fn pop_last(&mut self) -> SRes<Option<Pair>>;
    fn range(&self, lo: &Bd, hi: &Bd, pattern: u32, take: u32) -> SRes<Vec<Pair>>;
    fn first(&self) -> SRes<Option<Pair>>;
    fn last(&self) -> SRes<Option<Pair>>;
    fn len(&self) -> SRes<u64>;
    fn height(&self) -> SRes<u32>;
    fn retain(&mut self, lo: &Bd, hi: &Bd, p: &Pred) -> PredOutcome<()>;
    /// returns the yielded (removed) entries
    fn extract_if(&mut self, lo: &Bd, hi: &Bd, p: &Pred, pattern: u32, take: u32)
        -> PredOutcome<Vec<Pair>>;
    fn dump(&self) -> SRes<Vec<Pair>>;
}

pub struct WT<'t, K: Kk, V: Vv>(pub Table<'t, K, V>);

pub trait ReserveHelper: Vv + Sized {
    fn reserve<K: Kk>(_t: &mut Table<'_, K, Self>, _k: &KeyVal, _v: &OV) -> Option<SRes<()>> {
        None
    }
}
impl ReserveHelper for u64 {}
impl ReserveHelper for &'static [u8] {
    fn reserve<K: Kk>(t: &mut Table<'_, K, Self>, k: &KeyVal, v: &OV) -> Option<SRes<()>> {
        let OV::B(bytes) = v else { panic!() };
        Some((|| {
            let mut g = t.insert_reserve(K::arg(k), bytes.len())?;
            g.as_mut().copy_from_slice(bytes);
            Ok(())
        })())
    }
}

fn mk_pred<'p, K: Kk, V: Vv>(
    p: &'p Pred,
    count: &'p mut u32,
) -> impl for<'f> FnMut(K::SelfType<'f>, V::SelfType<'f>) -> bool + 'p {
    move |k, _v| {
        let n = *count;
        *count += 1;
        if p.panic_at == Some(n) {
            panic!("simulated predicate panic");
        }
        pred_selects(p, &K::out(k))
    }
}

impl<K: Kk, V: Vv + ReserveHelper> WTab for WT<'_, K, V> {
    fn insert(&mut self, k: &KeyVal, v: &OV) -> SRes<Option<OV>> {
        Ok(self.0.insert(K::arg(k), V::arg(v))?.map(|g| V::out(g.value())))
    }
    fn insert_reserve(&mut self, k: &KeyVal, v: &OV) -> Option<SRes<()>> {
        V::reserve(&mut self.0, k, v)
    }
    fn get(&self, k: &KeyVal) -> SRes<Option<OV>> {
        Ok(self.0.get(K::arg(k))?.map(|g| V::out(g.value())))
    }
    fn get_mut_set(&mut self, k: &KeyVal, v: &OV) -> SRes<Option<OV>> {
        match self.0.get_mut(K::arg(k))? {
            None => Ok(None),
            Some(mut g) => {
                let old = V::out(g.value());
                g.insert(V::arg(v))?;
                Ok(Some(old))
            }
        }
    }
    fn entry(&mut self, k: &KeyVal, v: &OV, mode: u8) -> SRes<Option<OV>> {
        // returns the previous value if the key was present
        match self.0.entry(K::arg(k))? {
            redb::Entry::Occupied(mut o) => {
                let old = V::out(o.get()?.value());
                match mode {
                    0 => {}
                    1 => {
                        o.insert(V::arg(v))?;
                    }
                    _ => {
                        o.remove()?;
                    }
                }
                Ok(Some(old))
            }
            redb::Entry::Vacant(vac) => {
                vac.insert(V::arg(v))?;
                Ok(None)
            }
        }
    }
    fn remove(&mut self, k: &KeyVal) -> SRes<Option<OV>> {
        Ok(self.0.remove(K::arg(k))?.map(|g| V::out(g.value())))
    }
    fn pop_first(&mut self) -> SRes<Option<Pair>> {
        Ok(self.0.pop_first()?.map(|(k, v)| (K::out(k.value()), V::out(v.value()))))
    }
    fn pop_last(&mut self) -> SRes<Option<Pair>> {
        Ok(self.0.pop_last()?.map(|(k, v)| (K::out(k.value()), V::out(v.value()))))
    }
    fn range(&self, lo: &Bd, hi: &Bd, pattern: u32, take: u32) -> SRes<Vec<Pair>> {
        let it = self.0.range::<K::SelfType<'_>>((bd::<K>(lo), bd::<K>(hi)))?;
        drain(it, pattern, take, |k, v| (K::out(k.value()), V::out(v.value())))
    }
    fn first(&self) -> SRes<Option<Pair>> {
        Ok(self.0.first()?.map(|(k, v)| (K::out(k.value()), V::out(v.value()))))
    }
    fn last(&self) -> SRes<Option<Pair>> {
        Ok(self.0.last()?.map(|(k, v)| (K::out(k.value()), V::out(v.value()))))
    }
    fn len(&self) -> SRes<u64> {
        self.0.len()
    }
    fn height(&self) -> SRes<u32> {
        Ok(self.0.stats()?.tree_height())
    }
    fn retain(&mut self, lo: &Bd, hi: &Bd, p: &Pred) -> PredOutcome<()> {
        let mut count = 0u32;
        // retain keeps entries for which the predicate is true: keep = !selected
        let r = catch_unwind(AssertUnwindSafe(|| {
            let mut inner = mk_pred::<K, V>(p, &mut count);
            self.0.retain_in::<K::SelfType<'_>, _>((bd::<K>(lo), bd::<K>(hi)), |k, v| !inner(k, v))
        }));
        match r {
            Ok(x) => PredOutcome::Done(x),
            Err(_) => PredOutcome::Panicked,
        }
    }
    fn extract_if(
        &mut self,
        lo: &Bd,
        hi: &Bd,
        p: &Pred,
        pattern: u32,
        take: u32,
    ) -> PredOutcome<Vec<Pair>> {
        let mut count = 0u32;
        if p.m % 2 == 0 {
            // the application catches the panic around the single next()/next_back() call and
            // drops the iterator in the ordinary way afterwards (not while unwinding)
            let inner = mk_pred::<K, V>(p, &mut count);
            let mut it = match self.0.extract_from_if::<K::SelfType<'_>, _>((bd::<K>(lo), bd::<K>(hi)), inner) {
                Ok(it) => it,
                Err(e) => return PredOutcome::Done(Err(e)),
            };
            let mut out = vec![];
            let mut i = 0u32;
            while (out.len() as u32) < take {
                let back = (pattern >> (i % 32)) & 1 == 1;
                i += 1;
                let nx = catch_unwind(AssertUnwindSafe(|| match if back { it.next_back() } else { it.next() } {
                    None => Ok(None),
                    Some(Err(e)) => Err(e),
                    Some(Ok((k, v))) => Ok(Some((K::out(k.value()), V::out(v.value())))),
                }));
                match nx {
                    Err(_) => {
                        drop(it);
                        return PredOutcome::Panicked;
                    }
                    Ok(Err(e)) => return PredOutcome::Done(Err(e)),
                    Ok(Ok(None)) => break,
                    Ok(Ok(Some(pair))) => out.push(pair),
                }
            }
            drop(it);
            return PredOutcome::Done(Ok(out));
        }
        let r = catch_unwind(AssertUnwindSafe(|| {
            let inner = mk_pred::<K, V>(p, &mut count);
            let it = self
                .0
                .extract_from_if::<K::SelfType<'_>, _>((bd::<K>(lo), bd::<K>(hi)), inner)?;
            drain(it, pattern, take, |k, v| (K::out(k.value()), V::out(v.value())))
        }));
        match r {
            Ok(x) => PredOutcome::Done(x),
            Err(_) => PredOutcome::Panicked,
        }
    }
    fn dump(&self) -> SRes<Vec<Pair>> {
        let mut out = vec![];
        for r in self.0.iter()? {
            let (k, v) = r?;
            out.push((K::out(k.value()), V::out(v.value())));
        }
        Ok(out)
    }
}

pub type MmEntry = (KeyVal, Vec<KeyVal>);

pub trait WMm {
    fn insert(&mut self, k: &KeyVal, v: &KeyVal) -> SRes<bool>;
    fn remove(&mut self, k: &KeyVal, v: &KeyVal) -> SRes<bool>;
    fn remove_all(&mut self, k: &KeyVal) -> SRes<Vec<KeyVal>>;
    /// values of a key, consumed front/back per pattern; also the reported len()
    fn get(&self, k: &KeyVal, pattern: u32) -> SRes<(u64, Vec<KeyVal>)>;
    fn range(&self, lo: &Bd, hi: &Bd, rev: bool) -> SRes<Vec<MmEntry>>;
    fn len(&self) -> SRes<u64>;
    fn dump(&self) -> SRes<Vec<MmEntry>>;
}

pub struct WM<'t, K: Kk, V: Kk>(pub MultimapTable<'t, K, V>);

fn mm_values<'a, V: Kk>(mut it: redb::MultimapValue<'a, V>, pattern: u32) -> SRes<Vec<KeyVal>> {
    let mut out = vec![];
    let mut i = 0u32;
    loop {
        let nx = if (pattern >> (i % 32)) & 1 == 1 { it.next_back() } else { it.next() };
        i += 1;
        match nx {
            None => break,
            Some(r) => out.push(V::out(r?.value())),
        }
    }
    Ok(out)
}

fn mm_collect<'a, K: Kk, V: Kk>(
    it: redb::MultimapRange<'a, K, V>,
    rev: bool,
) -> SRes<Vec<MmEntry>> {
    let mut out = vec![];
    let mut push = |r: SRes<(redb::AccessGuard<'a, K>, redb::MultimapValue<'a, V>)>| -> SRes<()> {
        let (k, vals) = r?;
        let kv = K::out(k.value());
        out.push((kv, mm_values::<V>(vals, 0)?));
        Ok(())
    };
    if rev {
        for r in it.rev() {
            push(r)?;
        }
    } else {
        for r in it {
            push(r)?;
        }
    }
    Ok(out)
}

impl<K: Kk, V: Kk> WMm for WM<'_, K, V> {
    fn insert(&mut self, k: &KeyVal, v: &KeyVal) -> SRes<bool> {
        self.0.insert(K::arg(k), V::arg(v))
    }
    fn remove(&mut self, k: &KeyVal, v: &KeyVal) -> SRes<bool> {
        self.0.remove(K::arg(k), V::arg(v))
    }
    fn remove_all(&mut self, k: &KeyVal) -> SRes<Vec<KeyVal>> {
        let it = self.0.remove_all(K::arg(k))?;
        mm_values::<V>(it, 0)
    }
    fn get(&self, k: &KeyVal, pattern: u32) -> SRes<(u64, Vec<KeyVal>)> {
        let it = self.0.get(K::arg(k))?;
        let n = it.len();
        Ok((n, mm_values::<V>(it, pattern)?))
    }
    fn range(&self, lo: &Bd, hi: &Bd, rev: bool) -> SRes<Vec<MmEntry>> {
        let it = self.0.range::<K::SelfType<'_>>((bd::<K>(lo), bd::<K>(hi)))?;
        mm_collect::<K, V>(it, rev)
    }
    fn len(&self) -> SRes<u64> {
        self.0.len()
    }
    fn dump(&self) -> SRes<Vec<MmEntry>> {
        mm_collect::<K, V>(self.0.iter()?, false)
    }
}

pub enum WHandle<'t> {
    T(Box<dyn WTab + 't>),
    M(Box<dyn WMm + 't>),
}

pub fn tdef<K: Kk, V: Vv>(name: &str) -> TableDefinition<'_, K, V> {
    TableDefinition::new(name)
}
pub fn mdef<K: Kk, V: Kk>(name: &str) -> MultimapTableDefinition<'_, K, V> {
    MultimapTableDefinition::new(name)
}

pub fn open_w<'t>(
    txn: &'t WriteTransaction,
    name: &str,
    kind: Kind,
) -> Result<WHandle<'t>, TableError> {
    Ok(match kind {
        Kind::TUB => WHandle::T(Box::new(WT(txn.open_table(tdef::<u64, &'static [u8]>(name))?))),
        Kind::TSB => {
            WHandle::T(Box::new(WT(txn.open_table(tdef::<&'static str, &'static [u8]>(name))?)))
        }
        Kind::TBU => WHandle::T(Box::new(WT(txn.open_table(tdef::<&'static [u8], u64>(name))?))),
        Kind::TSU => WHandle::T(Box::new(WT(txn.open_table(tdef::<&'static str, u64>(name))?))),
        Kind::MUB => WHandle::M(Box::new(WM(
            txn.open_multimap_table(mdef::<u64, &'static [u8]>(name))?
        ))),
        Kind::MSU => WHandle::M(Box::new(WM(
            txn.open_multimap_table(mdef::<&'static str, u64>(name))?
        ))),
    })
}

// ---------------------------------------------------------------------------------------------
// read-side tables

pub trait RTab {
    fn dump(&self) -> SRes<Vec<Pair>>;
    fn dump_rev(&self) -> SRes<Vec<Pair>>;
    fn len(&self) -> SRes<u64>;
    fn get(&self, k: &KeyVal) -> SRes<Option<OV>>;
    fn first(&self) -> SRes<Option<Pair>>;
    fn last(&self) -> SRes<Option<Pair>>;
    fn iter(&self, lo: &Bd, hi: &Bd, owned: bool) -> SRes<DynIter>;
    fn guard(&self, k: &KeyVal, owned: bool) -> SRes<Option<DynGuard>>;
}

pub struct RT<K: Kk, V: Vv>(pub ReadOnlyTable<K, V>);

impl<K: Kk, V: Vv> RTab for RT<K, V> {
    fn dump(&self) -> SRes<Vec<Pair>> {
        let mut out = vec![];
        for r in ReadableTable::iter(&self.0)? {
            let (k, v) = r?;
            out.push((K::out(k.value()), V::out(v.value())));
        }
        Ok(out)
    }
    fn dump_rev(&self) -> SRes<Vec<Pair>> {
        let mut out = vec![];
        for r in ReadableTable::iter(&self.0)?.rev() {
            let (k, v) = r?;
            out.push((K::out(k.value()), V::out(v.value())));
        }
        Ok(out)
    }
    fn len(&self) -> SRes<u64> {
        self.0.len()
    }
    fn get(&self, k: &KeyVal) -> SRes<Option<OV>> {
        Ok(ReadableTable::get(&self.0, K::arg(k))?.map(|g| V::out(g.value())))
    }
    fn first(&self) -> SRes<Option<Pair>> {
        Ok(self.0.first()?.map(|(k, v)| (K::out(k.value()), V::out(v.value()))))
    }
    fn last(&self) -> SRes<Option<Pair>> {
        Ok(self.0.last()?.map(|(k, v)| (K::out(k.value()), V::out(v.value()))))
    }
    fn iter(&self, lo: &Bd, hi: &Bd, owned: bool) -> SRes<DynIter> {
        if owned {
            let it = self.0.range_owned::<K::SelfType<'_>>((bd::<K>(lo), bd::<K>(hi)))?;
            Ok(Box::new(it.map(|r| r.map(|(k, v)| (K::out(k.value()), V::out(v.value()))))))
        } else {
            let it = ReadOnlyTable::range::<K::SelfType<'_>>(&self.0, (bd::<K>(lo), bd::<K>(hi)))?;
            Ok(Box::new(it.map(|r| r.map(|(k, v)| (K::out(k.value()), V::out(v.value()))))))
        }
    }
    fn guard(&self, k: &KeyVal, owned: bool) -> SRes<Option<DynGuard>> {
        if owned {
            Ok(self.0.get_owned(K::arg(k))?.map(|g| -> DynGuard { Box::new(move || V::out(g.value())) }))
        } else {
            Ok(ReadOnlyTable::get(&self.0, K::arg(k))?
                .map(|g| -> DynGuard { Box::new(move || V::out(g.value())) }))
        }
    }
}

pub trait RMm {
    fn dump(&self) -> SRes<Vec<MmEntry>>;
    fn dump_rev(&self) -> SRes<Vec<MmEntry>>;
    fn len(&self) -> SRes<u64>;
    fn get(&self, k: &KeyVal, pattern: u32) -> SRes<(u64, Vec<KeyVal>)>;
}

pub struct RM<K: Kk, V: Kk>(pub ReadOnlyMultimapTable<K, V>);

impl<K: Kk, V: Kk> RMm for RM<K, V> {
    fn dump(&self) -> SRes<Vec<MmEntry>> {
        mm_collect::<K, V>(ReadableMultimapTable::iter(&self.0)?, false)
    }
    fn dump_rev(&self) -> SRes<Vec<MmEntry>> {
        mm_collect::<K, V>(ReadableMultimapTable::iter(&self.0)?, true)
    }
    fn len(&self) -> SRes<u64> {
        self.0.len()
    }
    fn get(&self, k: &KeyVal, pattern: u32) -> SRes<(u64, Vec<KeyVal>)> {
        let it = ReadableMultimapTable::get(&self.0, K::arg(k))?;
        let n = it.len();
        Ok((n, mm_values::<V>(it, pattern)?))
    }
}

pub enum RHandle {
    T(Box<dyn RTab>),
    M(Box<dyn RMm>),
}

pub fn open_r(txn: &ReadTransaction, name: &str, kind: Kind) -> Result<RHandle, TableError> {
    Ok(match kind {
        Kind::TUB => RHandle::T(Box::new(RT(txn.open_table(tdef::<u64, &'static [u8]>(name))?))),
        Kind::TSB => {
            RHandle::T(Box::new(RT(txn.open_table(tdef::<&'static str, &'static [u8]>(name))?)))
        }
        Kind::TBU => RHandle::T(Box::new(RT(txn.open_table(tdef::<&'static [u8], u64>(name))?))),
        Kind::TSU => RHandle::T(Box::new(RT(txn.open_table(tdef::<&'static str, u64>(name))?))),
        Kind::MUB => RHandle::M(Box::new(RM(
            txn.open_multimap_table(mdef::<u64, &'static [u8]>(name))?
        ))),
        Kind::MSU => RHandle::M(Box::new(RM(
            txn.open_multimap_table(mdef::<&'static str, u64>(name))?
        ))),
    })
}
