//! Oracles built on the independent decoder (fsck.rs):
//!  * the sync hook: at every successful sync_data the durable bytes alone are decoded; the
//!    commit that recovery would select must be a well-formed forest (C10) whose contents equal
//!    one admissible model version, and every page reachable from it becomes write-protected
//!    until the next successful sync (C06 write monitor);
//!  * the ownership audit on the live database (C06), through the verif_snapshot hook.

use crate::fsck::{self, Forest, TableDump};
use crate::model::{key_bytes, DbState, TableState};
use crate::plan::{gen_bytes, Kind};
use std::collections::{BTreeMap, BTreeSet};
use std::sync::{Arc, Mutex};

pub type Dump = BTreeMap<String, TableDump>;

pub fn type_names(k: Kind) -> (&'static str, &'static str) {
    match k {
        Kind::TUB | Kind::MUB => ("u64", "&[u8]"),
        Kind::TSB => ("&str", "&[u8]"),
        Kind::TBU => ("&[u8]", "u64"),
        Kind::TSU | Kind::MSU => ("&str", "u64"),
    }
}

pub fn expected_dump(st: &DbState) -> Dump {
    let mut out = Dump::new();
    for (name, t) in st.tables.iter() {
        let (kt, vt) = type_names(t.kind());
        let d = match &**t {
            TableState::T(kind, m) => TableDump::Table {
                key_type: kt.into(),
                value_type: vt.into(),
                entries: m
                    .iter()
                    .map(|(k, v)| (key_bytes(k), if kind.val_is_bytes() { gen_bytes(*v) } else { v.id.to_le_bytes().to_vec() }))
                    .collect(),
            },
            TableState::M(_, m) => TableDump::Multimap {
                key_type: kt.into(),
                value_type: vt.into(),
                entries: m.iter().map(|(k, vs)| (key_bytes(k), vs.iter().map(key_bytes).collect())).collect(),
            },
        };
        out.insert(name.clone(), d);
    }
    out
}

#[derive(Default)]
pub struct HookShared {
    pub active: bool,
    pub allowed: BTreeSet<usize>,
    pub expected: BTreeMap<usize, (Arc<Dump>, Vec<u64>)>,
    pub viols: Vec<(String, String, String)>,
    pub syncs_checked: u64,
    pub protected_pages: u64,
    pub max_depth: u32,
    pub subtrees: u64,
    pub secondary_selected: u64,
}

pub fn strip_type(s: &str) -> &str {
    // the decoder may keep the classification byte in front of the name
    s.trim_start_matches(|c: char| (c as u32) < 32)
}

pub fn dumps_equal(a: &Dump, b: &Dump) -> bool {
    if a.len() != b.len() {
        return false;
    }
    for ((na, ta), (nb, tb)) in a.iter().zip(b.iter()) {
        if na != nb {
            return false;
        }
        match (ta, tb) {
            (
                TableDump::Table { key_type: k1, value_type: v1, entries: e1 },
                TableDump::Table { key_type: k2, value_type: v2, entries: e2 },
            ) => {
                if strip_type(k1) != strip_type(k2) || strip_type(v1) != strip_type(v2) || e1 != e2 {
                    return false;
                }
            }
            (
                TableDump::Multimap { key_type: k1, value_type: v1, entries: e1 },
                TableDump::Multimap { key_type: k2, value_type: v2, entries: e2 },
            ) => {
                if strip_type(k1) != strip_type(k2) || strip_type(v1) != strip_type(v2) || e1 != e2 {
                    return false;
                }
            }
            _ => return false,
        }
    }
    true
}

pub fn describe_diff(exp: &Dump, got: &Dump) -> String {
    let mut out = String::new();
    for (n, e) in exp {
        match got.get(n) {
            None => out.push_str(&format!("missing {n}; ")),
            Some(g) => {
                let mut one = Dump::new();
                one.insert(n.clone(), e.clone());
                let mut two = Dump::new();
                two.insert(n.clone(), g.clone());
                if !dumps_equal(&one, &two) {
                    out.push_str(&format!("{n} differs; "));
                }
            }
        }
    }
    for n in got.keys() {
        if !exp.contains_key(n) {
            out.push_str(&format!("unexpected {n}; "));
        }
    }
    out
}

/// Judge a decoded forest against the admissible versions.
pub fn judge(sh: &mut HookShared, forest: &Forest, what: &str) {
    if !forest.errors.is_empty() {
        let mut e = forest.errors.join(" | ");
        e.truncate(500);
        sh.viols.push(("C10".into(), "structure".into(), format!("{what}: {} structural error(s): {e}", forest.errors.len())));
        return;
    }
    let sp: Vec<u64> = forest.savepoints.iter().map(|s| s.0).collect();
    let mut matched = false;
    for v in sh.allowed.iter().rev() {
        if let Some((d, psp)) = sh.expected.get(v)
            && dumps_equal(d, &forest.tables)
            && *psp == sp
        {
            matched = true;
            break;
        }
    }
    if !matched {
        let newest = sh.allowed.iter().next_back().and_then(|v| sh.expected.get(v));
        let d = newest.map(|(d, _)| describe_diff(d, &forest.tables)).unwrap_or_default();
        sh.viols.push((
            "C10".into(),
            "contents".into(),
            format!("{what}: decoded contents equal none of the admissible versions {:?}; vs newest: {d}; savepoints {sp:?}", sh.allowed),
        ));
    }
}

pub fn make_hook(shared: Arc<Mutex<HookShared>>) -> crate::disk::SyncHook {
    Box::new(move |durable: &[u8]| {
        let mut sh = shared.lock().unwrap_or_else(|e| e.into_inner());
        if !sh.active {
            return None;
        }
        sh.syncs_checked += 1;
        match fsck::decode_image(durable) {
            Err(e) => {
                sh.viols.push(("C10".into(), "undecodable".into(), format!("durable image after sync_data cannot be decoded: {e}")));
                None
            }
            Ok((hdr, slot, forest)) => {
                if slot != hdr.primary {
                    sh.secondary_selected += 1;
                }
                sh.max_depth = sh.max_depth.max(forest.max_depth);
                sh.subtrees += forest.subtrees as u64;
                judge(&mut sh, &forest, "durable image at sync_data");
                // geometry as the decoder used it
                let geo = if hdr.recovery_required || hdr.geometry.file_len() != durable.len() as u64 {
                    hdr.geometry.recalculate(durable.len() as u64).unwrap_or(hdr.geometry)
                } else {
                    hdr.geometry
                };
                let mut ranges = Vec::with_capacity(forest.data_pages.len() + forest.system_pages.len());
                for p in forest.data_pages.iter().chain(forest.system_pages.iter()) {
                    let off = geo.page_offset(*p);
                    ranges.push((off, off + geo.page_len(*p)));
                }
                sh.protected_pages += ranges.len() as u64;
                Some(ranges)
            }
        }
    })
}

// ---------------------------------------------------------------------------------------------
// ownership audit on the live database (C06)

use crate::fsck::{FnSource, Geometry, PageId, Root};

fn expand(set: &mut BTreeSet<(u32, u64)>, p: PageId, dup: &mut Vec<PageId>) {
    for i in p.start0()..p.start0() + p.len0() {
        if !set.insert((p.region, i)) {
            dup.push(p);
            return;
        }
    }
}

pub struct Ownership {
    pub problems: Vec<(String, String)>,
    pub allocated: u64,
    pub skipped: bool,
}

/// Every allocated page is owned exactly once (current data tree, current system tree, a
/// recorded pending-free list), and every other page is free.
pub fn ownership_audit(db: &redb::Database) -> Ownership {
    let mut out = Ownership { problems: vec![], allocated: 0, skipped: false };
    let (mem, _trk) = db.verif_snapshot();
    let Some(alloc) = mem.allocated.as_ref() else {
        out.skipped = true;
        return out;
    };
    if mem.needs_repair {
        // a caught panic may legitimately leak pages until the next open repairs the allocator
        out.skipped = true;
        return out;
    }
    let geo = Geometry {
        page_size: mem.page_size,
        region_header_pages: mem.region_header_pages,
        region_max_data_pages: mem.region_max_data_pages,
        full_regions: mem.full_regions,
        trailing_pages: mem.trailing_pages,
    };
    let mk = |r: Option<(u64, u128, u64)>| r.map(|(p, c, l)| Root { page: PageId::from_u64(p), checksum: c, length: l });
    let src = FnSource(|_g: &Geometry, p: PageId| {
        std::panic::catch_unwind(std::panic::AssertUnwindSafe(|| db.verif_read_page(p.to_u64()))).ok().flatten()
    });
    let forest = fsck::decode_forest(&src, &geo, mk(mem.data_root), mk(mem.system_root));
    if !forest.errors.is_empty() {
        let mut e = forest.errors.join(" | ");
        e.truncate(400);
        out.problems.push(("live-forest".into(), format!("the live trees are not well-formed: {e}")));
        return out;
    }
    let mut a = BTreeSet::new();
    for (r, flags) in alloc.iter().enumerate() {
        for (i, f) in flags.iter().enumerate() {
            if *f {
                a.insert((r as u32, i as u64));
            }
        }
    }
    out.allocated = a.len() as u64;
    let mut owned = BTreeSet::new();
    let mut dup = vec![];
    for p in forest.data_pages.iter().chain(forest.system_pages.iter()) {
        expand(&mut owned, *p, &mut dup);
    }
    for (_, p) in forest.data_freed.iter().chain(forest.system_freed.iter()) {
        expand(&mut owned, *p, &mut dup);
    }
    for (_, raw) in mem.unpersisted_data_freed.iter() {
        expand(&mut owned, PageId::from_u64(*raw), &mut dup);
    }
    if !dup.is_empty() {
        out.problems.push(("double-owner".into(), format!("pages with more than one owner: {:?}", &dup[..dup.len().min(6)])));
    }
    let leaked: Vec<&(u32, u64)> = a.difference(&owned).take(8).collect();
    if !leaked.is_empty() {
        out.problems.push((
            "leak".into(),
            format!("{} allocated order-0 page(s) have no owner, e.g. {:?}", a.difference(&owned).count(), leaked),
        ));
    }
    let dangling: Vec<&(u32, u64)> = owned.difference(&a).take(8).collect();
    if !dangling.is_empty() {
        out.problems.push((
            "owned-but-free".into(),
            format!("{} page(s) are owned (reachable or pending free) but free in the allocator, e.g. {:?}", owned.difference(&a).count(), dangling),
        ));
    }
    // pages named by the allocation records must be allocated (a restore would free them again)
    for (_, p) in forest.data_allocated.iter() {
        if !(p.start0()..p.start0() + p.len0()).all(|i| a.contains(&(p.region, i))) {
            out.problems.push(("allocated-table".into(), format!("data_pages_allocated names {p}, which is not allocated")));
            break;
        }
    }
    for (_, raw) in mem.unpersisted_allocations.iter() {
        let p = PageId::from_u64(*raw);
        if !(p.start0()..p.start0() + p.len0()).all(|i| a.contains(&(p.region, i))) {
            out.problems.push(("allocated-table".into(), format!("unpersisted allocation record names {p}, which is not allocated")));
            break;
        }
    }
    out
}

// ---------------------------------------------------------------------------------------------
// pins: pages reachable from a reader's or savepoint's root must stay allocated and unchanged

pub type Pins = Vec<(PageId, u64)>;

/// The pages reachable from the current latest data root, with a hash of their bytes. Taken
/// right after begin_read() / ephemeral_savepoint() in the single-threaded engine, where the
/// latest root is exactly the root the new reader or savepoint captured.
pub fn take_pins(db: &redb::Database) -> Option<Pins> {
    let (mem, _) = db.verif_snapshot();
    let geo = Geometry {
        page_size: mem.page_size,
        region_header_pages: mem.region_header_pages,
        region_max_data_pages: mem.region_max_data_pages,
        full_regions: mem.full_regions,
        trailing_pages: mem.trailing_pages,
    };
    let root = mem.data_root.map(|(p, c, l)| Root { page: PageId::from_u64(p), checksum: c, length: l });
    let src = FnSource(|_g: &Geometry, p: PageId| {
        std::panic::catch_unwind(std::panic::AssertUnwindSafe(|| db.verif_read_page(p.to_u64()))).ok().flatten()
    });
    let forest = fsck::decode_forest(&src, &geo, root, None);
    if !forest.errors.is_empty() {
        return None;
    }
    let mut pins = Vec::with_capacity(forest.data_pages.len());
    for p in forest.data_pages {
        let bytes = db.verif_read_page(p.to_u64())?;
        pins.push((p, crate::rng::fnv(&bytes)));
    }
    Some(pins)
}

/// None if every pinned page is still allocated and byte-identical.
pub fn check_pins(db: &redb::Database, pins: &Pins, alloc: &[Vec<bool>]) -> Option<String> {
    for (p, h) in pins {
        let allocated = (p.start0()..p.start0() + p.len0()).all(|i| alloc.get(p.region as usize).and_then(|r| r.get(i as usize)).copied().unwrap_or(false));
        if !allocated {
            return Some(format!("page {p} is still referenced by a live snapshot but is free in the allocator"));
        }
        let bytes = std::panic::catch_unwind(std::panic::AssertUnwindSafe(|| db.verif_read_page(p.to_u64()))).ok().flatten();
        match bytes {
            Some(b) if crate::rng::fnv(&b) == *h => {}
            Some(_) => return Some(format!("page {p} is still referenced by a live snapshot but its bytes changed")),
            None => return Some(format!("page {p} is still referenced by a live snapshot but can no longer be read")),
        }
    }
    None
}
