//! The only source of randomness in the simulator: SplitMix64 for seeding, xoshiro256** streams.

#[derive(Clone, Debug)]
pub struct Rng {
    s: [u64; 4],
}

pub fn splitmix(x: &mut u64) -> u64 {
    *x = x.wrapping_add(0x9E37_79B9_7F4A_7C15);
    let mut z = *x;
    z = (z ^ (z >> 30)).wrapping_mul(0xBF58_476D_1CE4_E5B9);
    z = (z ^ (z >> 27)).wrapping_mul(0x94D0_49BB_1331_11EB);
    z ^ (z >> 31)
}

/// Mix two integers into one seed (used for per-run seeds: hash(seed, run_index)).
pub fn mix(a: u64, b: u64) -> u64 {
    let mut x = a ^ b.wrapping_mul(0xD6E8_FEB8_6659_FD93).rotate_left(17);
    let r = splitmix(&mut x);
    r ^ splitmix(&mut x)
}

impl Rng {
    pub fn new(seed: u64) -> Self {
        let mut x = seed;
        let s = [
            splitmix(&mut x),
            splitmix(&mut x),
            splitmix(&mut x),
            splitmix(&mut x),
        ];
        Rng { s }
    }

    pub fn next(&mut self) -> u64 {
        let r = self.s[1].wrapping_mul(5).rotate_left(7).wrapping_mul(9);
        let t = self.s[1] << 17;
        self.s[2] ^= self.s[0];
        self.s[3] ^= self.s[1];
        self.s[1] ^= self.s[2];
        self.s[0] ^= self.s[3];
        self.s[2] ^= t;
        self.s[3] = self.s[3].rotate_left(45);
        r
    }

    /// Uniform in 0..n (n > 0)
    pub fn below(&mut self, n: u64) -> u64 {
        debug_assert!(n > 0);
        // multiply-shift; bias is negligible for the n used here
        ((self.next() as u128 * n as u128) >> 64) as u64
    }

    pub fn range(&mut self, lo: u64, hi_incl: u64) -> u64 {
        lo + self.below(hi_incl - lo + 1)
    }

    pub fn usize(&mut self, n: usize) -> usize {
        self.below(n as u64) as usize
    }

    /// true with probability num/den
    pub fn chance(&mut self, num: u64, den: u64) -> bool {
        self.below(den) < num
    }

    pub fn pick<'a, T>(&mut self, xs: &'a [T]) -> &'a T {
        &xs[self.usize(xs.len())]
    }

    /// Weighted pick: returns an index according to weights.
    pub fn weighted(&mut self, weights: &[u32]) -> usize {
        let total: u64 = weights.iter().map(|w| *w as u64).sum();
        debug_assert!(total > 0);
        let mut r = self.below(total);
        for (i, w) in weights.iter().enumerate() {
            if r < *w as u64 {
                return i;
            }
            r -= *w as u64;
        }
        weights.len() - 1
    }

    pub fn fork(&mut self) -> Rng {
        Rng::new(self.next())
    }
}

/// FNV-1a 64 — used for op-log / content hashes (deterministic, no RandomState).
#[derive(Clone, Copy)]
pub struct Fnv(pub u64);
impl Default for Fnv {
    fn default() -> Self {
        Fnv(0xcbf2_9ce4_8422_2325)
    }
}
impl Fnv {
    pub fn bytes(&mut self, b: &[u8]) {
        for x in b {
            self.0 ^= *x as u64;
            self.0 = self.0.wrapping_mul(0x0100_0000_01b3);
        }
    }
    pub fn u64(&mut self, v: u64) {
        self.bytes(&v.to_le_bytes());
    }
}
pub fn fnv(b: &[u8]) -> u64 {
    let mut f = Fnv::default();
    f.bytes(b);
    f.0
}
