//! SimDisk: the simulated storage device. A `redb::StorageBackend` that
//!  * separates durable bytes from un-synced (pending) writes,
//!  * records every call in an op log (with write payloads) so that crash images can be built
//!    offline for any instant ("record once, crash many"),
//!  * injects faults at chosen call indices (fail once / fail forever / partial write),
//!  * monitors the backend contract (C20) and a set of protected byte ranges (C06 write monitor).
//! Nothing here reads a clock or draws randomness: every decision is data given by the caller.

use crate::rng::{Fnv, Rng};
use serde::{Deserialize, Serialize};
use std::io;
use std::sync::{Arc, Mutex};

#[derive(Clone, Copy, Debug, PartialEq, Eq, Serialize, Deserialize, PartialOrd, Ord)]
pub enum CallKind {
    Len,
    Read,
    Write,
    SetLen,
    Sync,
    Close,
}

#[derive(Clone, Copy, Debug, PartialEq, Eq, Serialize, Deserialize)]
pub enum Marker {
    OpenBegin,
    OpenEnd,
    TxnBegin,
    /// commit() called for model version `v`; durable = Durability::Immediate
    CommitRequested { v: u32, durable: bool },
    /// commit() returned Ok for version v
    CommitAcked { v: u32, durable: bool },
    CommitFailed { v: u32 },
    Abort,
    CloseBegin,
    CloseEnd,
    CompactBegin,
    CompactEnd,
    IntegrityBegin,
    IntegrityEnd,
    /// after recovery the model resynchronised: contents equal version `landed`; a copy was pushed as `new`
    Resynced { landed: u32, new: u32 },
    Other(u32),
}

#[derive(Clone, Debug)]
pub enum Op {
    Write { off: u64, data: Arc<[u8]>, applied: usize },
    SetLen { len: u64, ok: bool },
    Sync { ok: bool },
    Read { off: u64, len: u32, ok: bool },
    Len,
    Close,
    Marker(Marker),
}

/// One injected fault: the `index`-th backend call (counting from the moment the plan is armed)
/// of a kind in `kinds` fails. `permanent`: every later call of any faultable kind fails too.
/// `partial`: for a failing write, that fraction (per mille) of the bytes is applied first.
#[derive(Clone, Debug, Serialize, Deserialize, PartialEq)]
pub struct Fault {
    pub index: u64,
    pub permanent: bool,
    pub partial_permille: u16,
}

#[derive(Default, Clone, Debug, Serialize, Deserialize)]
pub struct Stats {
    pub calls: [u64; 6],
    pub faults_fired: [u64; 6],
    pub partial_writes: u64,
    pub bytes_written: u64,
    pub max_len: u64,
    pub shrinks: u64,
    pub grows: u64,
}

#[derive(Clone, Debug)]
pub enum Pend {
    Write { off: u64, data: Arc<[u8]>, applied: usize },
    SetLen(u64),
}

pub type SyncHook = Box<dyn FnMut(&[u8]) -> Option<Vec<(u64, u64)>> + Send>;

pub struct DiskState {
    pub live: Vec<u8>,
    pub durable: Vec<u8>,
    /// writes / set_lens issued since the last successful sync (applied to `durable` on sync)
    pub pending: Vec<Pend>,
    pub log: Vec<Op>,
    pub record: bool,
    pub closed: bool,
    pub close_count: u32,
    pub read_only: bool,
    pub call_index: u64,
    pub armed: bool,
    pub faults: Vec<Fault>,
    pub failing_forever: bool,
    pub contract: Vec<String>,
    pub monitor: Vec<String>,
    /// sorted, disjoint [start,end) ranges no write may touch until the next successful sync
    pub protected: Vec<(u64, u64)>,
    pub stats: Stats,
    pub hash: Fnv,
    pub sync_hook: Option<SyncHook>,
    pub syncs_ok: u64,
    /// after a simulated power loss: the process is still unwinding, but nothing reaches the medium
    pub dead: bool,
    /// the next close() reports an error (it still counts as the one close the contract allows)
    pub fail_close: bool,
}

#[derive(Clone)]
pub struct SimDisk(pub Arc<Mutex<DiskState>>);

impl std::fmt::Debug for SimDisk {
    fn fmt(&self, f: &mut std::fmt::Formatter<'_>) -> std::fmt::Result {
        f.write_str("SimDisk")
    }
}

fn injected() -> io::Error {
    io::Error::other("simdisk: injected fault")
}

impl SimDisk {
    pub fn new(image: Vec<u8>) -> Self {
        let st = DiskState {
            durable: image.clone(),
            live: image,
            pending: vec![],
            log: vec![],
            record: true,
            closed: false,
            close_count: 0,
            read_only: false,
            call_index: 0,
            armed: false,
            faults: vec![],
            failing_forever: false,
            contract: vec![],
            monitor: vec![],
            protected: vec![],
            stats: Stats::default(),
            hash: Fnv::default(),
            sync_hook: None,
            syncs_ok: 0,
            dead: false,
            fail_close: false,
        };
        SimDisk(Arc::new(Mutex::new(st)))
    }

    pub fn st(&self) -> std::sync::MutexGuard<'_, DiskState> {
        self.0.lock().unwrap_or_else(|e| e.into_inner())
    }

    pub fn marker(&self, m: Marker) {
        let mut s = self.st();
        if s.record {
            s.log.push(Op::Marker(m));
        }
    }

    /// Start counting calls for fault injection from now.
    pub fn arm(&self, faults: Vec<Fault>) {
        let mut s = self.st();
        s.armed = true;
        s.call_index = 0;
        s.faults = faults;
        s.failing_forever = false;
    }

    pub fn disarm(&self) {
        let mut s = self.st();
        s.armed = false;
        s.faults.clear();
        s.failing_forever = false;
    }

    pub fn set_sync_hook(&self, h: Option<SyncHook>) {
        self.st().sync_hook = h;
    }

    /// A new handle state for "the same medium, a new process": keeps live bytes as they are
    /// (clean reopen: nothing is lost), clears closed flag. Used for clean close + reopen.
    pub fn reopen_clean(&self) {
        let mut s = self.st();
        s.closed = false;
        s.close_count = 0;
    }

    pub fn live_len(&self) -> u64 {
        self.st().live.len() as u64
    }
}

impl DiskState {
    fn fault_check(&mut self, kind: CallKind) -> Option<u16> {
        // returns Some(partial_permille) if this call must fail
        self.stats.calls[kind as usize] += 1;
        if !self.armed || kind == CallKind::Close {
            return None;
        }
        let idx = self.call_index;
        self.call_index += 1;
        if self.failing_forever {
            self.stats.faults_fired[kind as usize] += 1;
            return Some(0);
        }
        if let Some(pos) = self.faults.iter().position(|f| f.index == idx) {
            let f = self.faults[pos].clone();
            if f.permanent {
                self.failing_forever = true;
            }
            self.stats.faults_fired[kind as usize] += 1;
            return Some(f.partial_permille);
        }
        None
    }

    fn check_open(&mut self, what: &str) {
        if self.closed {
            self.contract
                .push(format!("{what} after close() (call #{})", self.log.len()));
        }
    }

    fn check_protected(&mut self, off: u64, len: u64) {
        if self.protected.is_empty() || len == 0 {
            return;
        }
        let end = off + len;
        // binary search first range with r.end > off
        let i = self.protected.partition_point(|r| r.1 <= off);
        if i < self.protected.len() && self.protected[i].0 < end {
            let r = self.protected[i];
            self.monitor.push(format!(
                "write [{off},{end}) overlaps range [{},{}) reachable from the last durable commit (log index {})",
                r.0,
                r.1,
                self.log.len()
            ));
        }
    }
}

impl redb::StorageBackend for SimDisk {
    fn len(&self) -> Result<u64, io::Error> {
        let mut s = self.st();
        if s.dead { return Err(injected()); }
        s.check_open("len()");
        let f = s.fault_check(CallKind::Len);
        if s.record {
            s.log.push(Op::Len);
        }
        if f.is_some() {
            return Err(injected());
        }
        Ok(s.live.len() as u64)
    }

    fn read(&self, offset: u64, out: &mut [u8]) -> Result<(), io::Error> {
        let mut s = self.st();
        if s.dead { return Err(injected()); }
        s.check_open("read()");
        let f = s.fault_check(CallKind::Read);
        let end = offset + out.len() as u64;
        let inb = end <= s.live.len() as u64;
        if !inb {
            let l = s.live.len();
            s.contract.push(format!(
                "read [{offset},{end}) beyond current length {l}"
            ));
        }
        if s.record {
            s.log.push(Op::Read {
                off: offset,
                len: out.len() as u32,
                ok: f.is_none() && inb,
            });
        }
        s.hash.u64(0x11);
        s.hash.u64(offset);
        s.hash.u64(out.len() as u64);
        if f.is_some() {
            return Err(injected());
        }
        if !inb {
            return Err(io::Error::new(io::ErrorKind::InvalidInput, "out of range"));
        }
        out.copy_from_slice(&s.live[offset as usize..end as usize]);
        Ok(())
    }

    fn set_len(&self, len: u64) -> Result<(), io::Error> {
        let mut s = self.st();
        if s.dead { return Err(injected()); }
        s.check_open("set_len()");
        if s.read_only {
            s.contract.push("set_len() on a read-only database".into());
        }
        let f = s.fault_check(CallKind::SetLen);
        s.hash.u64(0x22);
        s.hash.u64(len);
        if s.record {
            s.log.push(Op::SetLen { len, ok: f.is_none() });
        }
        if f.is_some() {
            return Err(injected());
        }
        let old = s.live.len() as u64;
        if len < old {
            s.stats.shrinks += 1;
        } else if len > old {
            s.stats.grows += 1;
        }
        s.live.resize(len as usize, 0);
        s.stats.max_len = s.stats.max_len.max(len);
        s.pending.push(Pend::SetLen(len));
        Ok(())
    }

    fn sync_data(&self) -> Result<(), io::Error> {
        let mut s = self.st();
        if s.dead { return Err(injected()); }
        s.check_open("sync_data()");
        if s.read_only {
            s.contract.push("sync_data() on a read-only database".into());
        }
        let f = s.fault_check(CallKind::Sync);
        s.hash.u64(0x33);
        if s.record {
            s.log.push(Op::Sync { ok: f.is_none() });
        }
        if f.is_some() {
            return Err(injected());
        }
        let pend = std::mem::take(&mut s.pending);
        for p in pend {
            match p {
                Pend::Write { off, data, applied } => {
                    let o = off as usize;
                    if o + applied <= s.durable.len() {
                        s.durable[o..o + applied].copy_from_slice(&data[..applied]);
                    }
                }
                Pend::SetLen(l) => s.durable.resize(l as usize, 0),
            }
        }
        debug_assert!(s.durable == s.live);
        s.syncs_ok += 1;
        s.protected.clear();
        if let Some(mut h) = s.sync_hook.take() {
            let durable = std::mem::take(&mut s.durable);
            let r = h(&durable);
            s.durable = durable;
            if let Some(mut ranges) = r {
                ranges.sort();
                s.protected = ranges;
            }
            s.sync_hook = Some(h);
        }
        Ok(())
    }

    fn write(&self, offset: u64, data: &[u8]) -> Result<(), io::Error> {
        let mut s = self.st();
        if s.dead { return Err(injected()); }
        s.check_open("write()");
        if s.read_only {
            s.contract.push("write() on a read-only database".into());
        }
        let f = s.fault_check(CallKind::Write);
        let end = offset + data.len() as u64;
        let inb = end <= s.live.len() as u64;
        if !inb {
            let l = s.live.len();
            s.contract.push(format!(
                "write [{offset},{end}) beyond current length {l}"
            ));
        }
        s.hash.u64(0x44);
        s.hash.u64(offset);
        s.hash.bytes(data);
        let applied = match f {
            None => data.len(),
            Some(pm) => data.len() * pm as usize / 1000,
        };
        let applied = if inb { applied } else { 0 };
        if applied > 0 {
            s.check_protected(offset, applied as u64);
            s.live[offset as usize..offset as usize + applied].copy_from_slice(&data[..applied]);
            s.stats.bytes_written += applied as u64;
            if f.is_some() {
                s.stats.partial_writes += 1;
            }
        }
        let shared: Arc<[u8]> = Arc::from(data);
        if applied > 0 {
            s.pending.push(Pend::Write { off: offset, data: shared.clone(), applied });
        }
        if s.record {
            s.log.push(Op::Write { off: offset, data: shared, applied });
        }
        if f.is_some() {
            return Err(injected());
        }
        if !inb {
            return Err(io::Error::new(io::ErrorKind::InvalidInput, "out of range"));
        }
        Ok(())
    }

    fn close(&self) -> Result<(), io::Error> {
        let mut s = self.st();
        if s.dead { return Ok(()); }
        s.stats.calls[CallKind::Close as usize] += 1;
        s.close_count += 1;
        if s.close_count > 1 {
            let c = s.close_count;
            s.contract.push(format!("close() called {c} times"));
        }
        s.closed = true;
        if s.record {
            s.log.push(Op::Close);
        }
        if s.fail_close {
            s.fail_close = false;
            s.stats.faults_fired[CallKind::Close as usize] += 1;
            return Err(injected());
        }
        Ok(())
    }
}

// ------------------------------------------------------------------------------------------
// Crash-image construction

#[derive(Clone, Debug, Serialize, Deserialize, PartialEq)]
pub enum CrashChoice {
    /// every pending op reached the medium
    AllKept,
    /// none did
    NoneKept,
    /// all but the i-th pending op (mod count)
    AllBut(u32),
    /// only the i-th pending op
    Only(u32),
    /// only writes touching the header page [0, 512)
    OnlyHeader,
    /// everything except writes touching the header page
    ExceptHeader,
    /// only set_len ops
    OnlyLens,
    /// a prefix of the pending ops in issue order, the last one torn
    PrefixTorn(u32, u64),
    /// each op decided by a PRNG stream with this seed: dropped / kept / torn
    Random(u64),
}

#[derive(Default, Clone, Debug)]
pub struct CrashInfo {
    pub pending: usize,
    pub kept: usize,
    pub torn: usize,
    pub lens_kept: usize,
    pub lens_dropped: usize,
}

fn apply_write(img: &mut [u8], off: u64, data: &[u8]) {
    // clipped to the image's current length: data beyond a lost length update is lost with it
    let len = img.len() as u64;
    if off >= len {
        return;
    }
    let n = ((len - off) as usize).min(data.len());
    img[off as usize..off as usize + n].copy_from_slice(&data[..n]);
}

fn apply_torn(img: &mut Vec<u8>, off: u64, data: &[u8], rng: &mut Rng) {
    if data.is_empty() {
        return;
    }
    let n = data.len();
    match rng.below(5) {
        0 => {
            // prefix
            let k = rng.usize(n + 1);
            apply_write(img, off, &data[..k]);
        }
        1 => {
            // suffix
            let k = rng.usize(n + 1);
            apply_write(img, off + k as u64, &data[k..]);
        }
        2 => {
            // one contiguous sub-range
            let a = rng.usize(n);
            let b = a + rng.usize(n - a + 1);
            apply_write(img, off + a as u64, &data[a..b]);
        }
        3 => {
            // random subset of 512-byte sectors (sector grid aligned to file offsets)
            let mut pos = 0usize;
            while pos < n {
                let sector_end = (((off as usize + pos) / 512) + 1) * 512 - off as usize;
                let e = sector_end.min(n);
                if rng.chance(1, 2) {
                    apply_write(img, off + pos as u64, &data[pos..e]);
                }
                pos = e;
            }
        }
        _ => {
            // random byte mask (byte granularity: each byte old or new)
            let len = img.len() as u64;
            for (i, b) in data.iter().enumerate() {
                let p = off + i as u64;
                if p < len && rng.chance(1, 2) {
                    img[p as usize] = *b;
                }
            }
        }
    }
}

/// Walks an op log and materialises crash images. `base` is the durable image the recorded disk
/// started from.
pub struct CrashWalker<'a> {
    log: &'a [Op],
    /// durable image as of the last successful sync before `pos`
    durable: Vec<u8>,
    /// log indices of pending (applied, un-synced) writes/set_lens before `pos`
    pending: Vec<usize>,
    pos: usize,
}

impl<'a> CrashWalker<'a> {
    pub fn new(base: Vec<u8>, log: &'a [Op]) -> Self {
        CrashWalker { log, durable: base, pending: vec![], pos: 0 }
    }

    /// Advance so that the state is "just before log[k]".
    pub fn advance_to(&mut self, k: usize) {
        assert!(k >= self.pos && k <= self.log.len());
        while self.pos < k {
            match &self.log[self.pos] {
                Op::Write { applied, .. } => {
                    if *applied > 0 {
                        self.pending.push(self.pos);
                    }
                }
                Op::SetLen { ok, .. } => {
                    if *ok {
                        self.pending.push(self.pos);
                    }
                }
                Op::Sync { ok } => {
                    if *ok {
                        let p = std::mem::take(&mut self.pending);
                        for i in p {
                            Self::apply_full(&mut self.durable, &self.log[i]);
                        }
                    }
                }
                _ => {}
            }
            self.pos += 1;
        }
    }

    fn apply_full(img: &mut Vec<u8>, op: &Op) {
        match op {
            Op::Write { off, data, applied } => apply_write(img, *off, &data[..*applied]),
            Op::SetLen { len, .. } => img.resize(*len as usize, 0),
            _ => {}
        }
    }

    pub fn pending_count(&self) -> usize {
        self.pending.len()
    }

    pub fn durable(&self) -> &[u8] {
        &self.durable
    }

    fn touches_header(op: &Op) -> bool {
        matches!(op, Op::Write { off, .. } if *off < 512)
    }

    /// Crash image for the current position under `choice`.
    pub fn image(&self, choice: &CrashChoice) -> (Vec<u8>, CrashInfo) {
        let mut img = self.durable.clone();
        let n = self.pending.len();
        let mut info = CrashInfo { pending: n, ..Default::default() };
        let mut rng = match choice {
            CrashChoice::Random(s) => Rng::new(*s),
            CrashChoice::PrefixTorn(_, s) => Rng::new(*s),
            _ => Rng::new(0),
        };
        for (j, &li) in self.pending.iter().enumerate() {
            let op = &self.log[li];
            // 0 = drop, 1 = keep, 2 = tear
            let decision = match choice {
                CrashChoice::AllKept => 1,
                CrashChoice::NoneKept => 0,
                CrashChoice::AllBut(i) => {
                    if n > 0 && j == (*i as usize) % n { 0 } else { 1 }
                }
                CrashChoice::Only(i) => {
                    if n > 0 && j == (*i as usize) % n { 1 } else { 0 }
                }
                CrashChoice::OnlyHeader => Self::touches_header(op) as u8,
                CrashChoice::ExceptHeader => (!Self::touches_header(op)) as u8,
                CrashChoice::OnlyLens => matches!(op, Op::SetLen { .. }) as u8,
                CrashChoice::PrefixTorn(p, _) => {
                    let cut = if n > 0 { (*p as usize) % (n + 1) } else { 0 };
                    if j < cut {
                        1
                    } else if j == cut {
                        2
                    } else {
                        0
                    }
                }
                CrashChoice::Random(_) => match rng.below(10) {
                    0..=3 => 0,
                    4..=7 => 1,
                    _ => 2,
                },
            };
            match op {
                Op::Write { off, data, applied } => match decision {
                    0 => {}
                    1 => {
                        apply_write(&mut img, *off, &data[..*applied]);
                        info.kept += 1;
                    }
                    _ => {
                        apply_torn(&mut img, *off, &data[..*applied], &mut rng);
                        info.torn += 1;
                    }
                },
                Op::SetLen { len, .. } => {
                    // a length change is persisted or not (no tearing)
                    if decision >= 1 {
                        img.resize(*len as usize, 0);
                        info.lens_kept += 1;
                    } else {
                        info.lens_dropped += 1;
                    }
                }
                _ => {}
            }
        }
        (img, info)
    }
}


// The same simulated medium seen through redb 3.0.0's StorageBackend trait (C19: two
// implementations alternate on one simulated disk).
#[cfg(feature = "compat")]
impl redb3::StorageBackend for SimDisk {
    fn len(&self) -> Result<u64, io::Error> {
        <SimDisk as redb::StorageBackend>::len(self)
    }
    fn read(&self, offset: u64, out: &mut [u8]) -> Result<(), io::Error> {
        <SimDisk as redb::StorageBackend>::read(self, offset, out)
    }
    fn set_len(&self, len: u64) -> Result<(), io::Error> {
        <SimDisk as redb::StorageBackend>::set_len(self, len)
    }
    fn sync_data(&self) -> Result<(), io::Error> {
        <SimDisk as redb::StorageBackend>::sync_data(self)
    }
    fn write(&self, offset: u64, data: &[u8]) -> Result<(), io::Error> {
        <SimDisk as redb::StorageBackend>::write(self, offset, data)
    }
    fn close(&self) -> Result<(), io::Error> {
        <SimDisk as redb::StorageBackend>::close(self)
    }
}
