mod compat;
mod corrupt;
mod crash;
mod custom;
mod deep;
mod disk;
mod exec;
mod fsck;
mod model;
mod obs;
mod plan;
mod plangen;
mod rng;
mod runner;
mod tabs;
mod txn;
mod types;

fn main() {
    let args: Vec<String> = std::env::args().skip(1).collect();
    let code = runner::cli(&args);
    std::process::exit(code);
}
