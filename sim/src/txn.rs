//! Write-transaction execution: every op is applied to redb and to the pending model state, and
//! every result is compared.

use crate::disk::Marker;
use crate::exec::{bounds_ok, coerce_bd, coerce_key, Eph, Exec, Mode};
use crate::model::{consume, mm_range_of, pred_selects, range_of, DbState, PSp, TableState};
use crate::plan::{table_name, End, KeyVal, Kind, Op, TRef, Txn, KT};
use crate::tabs::{open_w, PredOutcome, WHandle};
use crate::types::{expect_ov, OV};
use redb::{
    CommitError, Durability, MultimapTableHandle, SavepointError, SetDurabilityError, TableError, TableHandle,
    WriteTransaction,
};
use std::panic::{catch_unwind, AssertUnwindSafe};
use std::sync::Arc;

pub struct TxnCtx {
    pub pend: DbState,
    pub dirty: bool,
    pub durable: bool,
    pub poisoned: bool,
    pub floor: Option<u64>,
    pub psp_modified: bool,
    pub failed: bool,
}

#[derive(Debug, PartialEq, Clone, Copy)]
enum OpenExpect {
    Ok,
    AlreadyOpen,
    IsMultimap,
    IsNotMultimap,
    TypeMismatch,
}

fn classify(e: &TableError) -> &'static str {
    match e {
        TableError::TableAlreadyOpen(..) => "AlreadyOpen",
        TableError::TableIsMultimap(_) => "IsMultimap",
        TableError::TableIsNotMultimap(_) => "IsNotMultimap",
        TableError::TableTypeMismatch { .. } => "TypeMismatch",
        TableError::TableDoesNotExist(_) => "DoesNotExist",
        TableError::TableExists(_) => "Exists",
        TableError::TypeDefinitionChanged { .. } => "TypeDefinitionChanged",
        TableError::Storage(_) => "Storage",
        _ => "Other",
    }
}

fn th(name: &str) -> redb::TableDefinition<'_, u64, u64> {
    redb::TableDefinition::new(name)
}
fn mh(name: &str) -> redb::MultimapTableDefinition<'_, u64, u64> {
    redb::MultimapTableDefinition::new(name)
}

fn coerce_val_key(k: &KeyVal, kt: KT) -> Option<KeyVal> {
    coerce_key(k, kt)
}

impl Exec {
    fn table_mut<'a>(ctx: &'a mut TxnCtx, name: &str) -> &'a mut TableState {
        Arc::make_mut(ctx.pend.tables.get_mut(name).unwrap())
    }

    pub fn run_txn(&mut self, t: &Txn, drop_db: bool) {
        let Some(db) = self.db.as_ref() else { return };
        self.stats.txns += 1;
        self.stats.api_calls += 1;
        self.disk.marker(Marker::TxnBegin);
        let mut txn = match db.begin_write() {
            Ok(t) => t,
            Err(e) => {
                if self.mode == Mode::Strict {
                    self.viol("C03", "begin_write", format!("begin_write failed: {e}"));
                } else {
                    self.stats.refused_after_error += 1;
                    self.io_error_seen = true;
                }
                return;
            }
        };
        if self.io_error_seen {
            self.viol("C08", "write-after-error", "begin_write() succeeded after a storage error had been reported".into());
        }
        // C05: allocation level must be back where it was before an abandoned transaction
        if self.mode == Mode::Strict {
            match txn.stats() {
                Ok(s) => {
                    let a = s.allocated_pages();
                    if let Some(b) = self.abort_baseline
                        && a != b
                        && !self.panic_leak
                    {
                        self.viol("C05", "abort-leak", format!("allocated pages {b} before the abandoned transaction, {a} after it"));
                    }
                    self.abort_baseline = Some(a);
                }
                Err(e) => {
                    let e = e.to_string();
                    self.api_err("C05", "stats", &e)
                }
            }
        }
        let mut ctx = TxnCtx {
            pend: (**self.state()).clone(),
            dirty: false,
            durable: true,
            poisoned: false,
            floor: None,
            psp_modified: false,
            failed: false,
        };
        txn.set_two_phase_commit(t.two_phase);
        txn.set_quick_repair(t.quick_repair);
        if !t.durable {
            match txn.set_durability(Durability::None) {
                Ok(()) => ctx.durable = false,
                Err(e) => self.viol("C07", "set_durability", format!("unexpected: {e}")),
            }
        }

        let ops = &t.ops;
        let drop_at = if drop_db { ops.len() / 2 } else { usize::MAX };
        let mut i = 0;
        let mut dropped = false;
        while i < ops.len() && !ctx.poisoned && !ctx.failed && self.viols.is_empty() {
            if i == drop_at && !dropped {
                dropped = true;
                self.drop_db_with_live_txn();
            }
            if ops[i].needs_mut() {
                self.apply_mut(&mut txn, &mut ctx, &ops[i]);
                i += 1;
                continue;
            }
            let mut open: Vec<(String, Kind, WHandle)> = vec![];
            while i < ops.len() && !ops[i].needs_mut() && !ctx.poisoned && !ctx.failed && self.viols.is_empty() {
                if i == drop_at && !dropped {
                    break;
                }
                self.stats.api_calls += 1;
                let r = catch_unwind(AssertUnwindSafe(|| self.apply(&txn, &mut ctx, &mut open, &ops[i])));
                if r.is_err() {
                    self.panic_viol(&format!("panic inside operation {:?}", short_op(&ops[i])));
                    ctx.failed = true;
                }
                i += 1;
            }
            if t.rev_drop {
                while let Some(h) = open.pop() {
                    drop(h);
                }
            }
            drop(open);
        }
        if drop_db && self.db.is_some() {
            self.drop_db_with_live_txn();
        }

        // ---- end of transaction
        let end = if !self.viols.is_empty() { End::Abort } else { t.end };
        // a deferred close performed while unwinding is not a clean close (by design nothing is
        // committed then): that combination is not part of the lifecycle step
        let end = if drop_db && end == End::Panic { End::Drop } else { end };
        match end {
            End::Commit => {
                let v = self.versions.len();
                self.versions.push(Arc::new(ctx.pend.clone()));
                self.allowed.insert(v);
                self.push_hook_state();
                self.disk.marker(Marker::CommitRequested { v: v as u32, durable: ctx.durable });
                self.stats.api_calls += 1;
                let r = catch_unwind(AssertUnwindSafe(|| txn.commit()));
                match r {
                    Err(_) => {
                        self.panic_viol("commit() panicked");
                        self.io_error_seen = true;
                    }
                    Ok(Ok(())) => {
                        if ctx.poisoned {
                            self.viol("C05", "poisoned-commit", "commit() of a poisoned transaction succeeded".into());
                        }
                        if self.io_error_seen && self.mode == Mode::Faulty {
                            // "later write attempts are refused until the database is reopened"
                            self.viol(
                                "C08",
                                "commit-after-error",
                                format!("commit() (durable: {}) succeeded although a storage error had already been reported by this database instance", ctx.durable),
                            );
                        }
                        self.disk.marker(Marker::CommitAcked { v: v as u32, durable: ctx.durable });
                        self.cur = v;
                        self.stats.commits += 1;
                        if ctx.durable {
                            self.allowed.retain(|x| *x >= v);
                            if t.two_phase {
                                self.stats.two_phase += 1;
                            }
                            if t.quick_repair {
                                self.stats.quick_repair += 1;
                            }
                        } else {
                            self.stats.nondurable_commits += 1;
                        }
                        if let Some(f) = ctx.floor {
                            for e in self.eph.iter_mut() {
                                if e.seq > f {
                                    e.valid = false;
                                }
                            }
                        }
                        self.abort_baseline = None;
                    }
                    Ok(Err(CommitError::TransactionPoisoned)) if ctx.poisoned => {
                        // rolled back: the version never existed
                        self.allowed.remove(&v);
                        self.stats.poisoned_commits += 1;
                        self.disk.marker(Marker::CommitFailed { v: v as u32 });
                    }
                    Ok(Err(e)) => {
                        if self.mode == Mode::Strict {
                            self.viol("C03", "commit-error", format!("commit failed on a fault-free run: {e}"));
                        } else {
                            // the commit may or may not have taken effect: stays admissible
                            self.note_error(&e.to_string());
                            self.disk.marker(Marker::Other(v as u32));
                            // later write attempts must be refused until the database is reopened
                            if let Some(db) = self.db.as_ref() {
                                if db.begin_write().is_ok() {
                                    self.viol("C08", "write-after-error", "begin_write() succeeded after commit() had reported a storage error".into());
                                } else {
                                    self.stats.refused_after_error += 1;
                                }
                            }
                            // which of the two states later reads see is not determined: stop here
                            self.dead_end = true;
                        }
                        self.abort_baseline = None;
                    }
                }
            }
            End::Abort => {
                self.stats.aborts += 1;
                self.disk.marker(Marker::Abort);
                self.stats.api_calls += 1;
                let r = catch_unwind(AssertUnwindSafe(|| txn.abort()));
                match r {
                    Err(_) => self.panic_viol("abort() panicked"),
                    Ok(Ok(())) => {}
                    Ok(Err(e)) => {
                        let e = e.to_string();
                        self.api_err("C05", "abort", &e);
                        self.abort_baseline = None;
                    }
                }
            }
            End::Panic => {
                self.stats.aborts += 1;
                self.disk.marker(Marker::Abort);
                let r = catch_unwind(AssertUnwindSafe(move || {
                    let _live = txn;
                    panic!("simulated application panic with a live write transaction");
                }));
                debug_assert!(r.is_err());
                // documented: the leak lasts until the next open; page accounting is not judged
                self.abort_baseline = None;
                self.panic_leak = true;
            }
            End::Drop => {
                self.stats.aborts += 1;
                self.disk.marker(Marker::Abort);
                let r = catch_unwind(AssertUnwindSafe(|| drop(txn)));
                if r.is_err() {
                    self.panic_viol("dropping a write transaction panicked");
                }
                if self.mode == Mode::Faulty {
                    self.abort_baseline = None;
                }
            }
        }
        if drop_db {
            // handles created after the Database was dropped belong to the closed instance
            self.drop_handles();
            // the deferred close has now happened
            if self.mode == Mode::Strict && !self.io_error_seen {
                self.disk.marker(Marker::CloseEnd);
                let cur = self.cur;
                self.allowed.retain(|x| *x >= cur);
            }
            self.end_lifetime();
            let image = self.disk.st().live.clone();
            if let Err(e) = self.open_image(image, self.cache) {
                let e = e.to_string();
                self.api_err("C20", "reopen after deferred close", &e);
                self.dead_end = true;
            } else {
                self.after_open_checks("C20", false);
            }
        }
    }

    fn drop_db_with_live_txn(&mut self) {
        self.drop_handles();
        if let Some(db) = self.db.take() {
            self.disk.marker(Marker::CloseBegin);
            let r = catch_unwind(AssertUnwindSafe(|| drop(db)));
            if r.is_err() {
                self.viol("C20", "panic", "dropping the Database with a live write transaction panicked".into());
            }
            let closed = self.disk.st().closed;
            if closed {
                self.viol("C20", "early-close", "backend closed while a write transaction was still live".into());
            }
        }
    }

    fn apply_mut(&mut self, txn: &mut WriteTransaction, ctx: &mut TxnCtx, op: &Op) {
        self.stats.api_calls += 1;
        match op {
            Op::SetDurability { durable } => {
                let d = if *durable { Durability::Immediate } else { Durability::None };
                let expect_err = !*durable && ctx.psp_modified;
                match txn.set_durability(d) {
                    Ok(()) => {
                        if expect_err {
                            self.viol("C07", "durability-downgrade", "set_durability(None) accepted after a persistent savepoint was created or deleted".into());
                        }
                        ctx.durable = *durable;
                    }
                    Err(SetDurabilityError::PersistentSavepointModified) if expect_err => {}
                    Err(e) => self.viol("C07", "set_durability", format!("unexpected error {e}")),
                }
            }
            Op::SpRestore { idx } => {
                if self.eph.is_empty() {
                    return;
                }
                let i = *idx as usize % self.eph.len();
                let (seq, valid, snap) = (self.eph[i].seq, self.eph[i].valid, self.eph[i].snap.clone());
                let r = {
                    let sp = &self.eph[i].sp;
                    catch_unwind(AssertUnwindSafe(|| txn.restore_savepoint(sp)))
                };
                self.judge_restore(ctx, r, seq, valid, snap, "ephemeral");
            }
            Op::SpRestorePersistent { idx } => {
                if ctx.pend.psp.is_empty() {
                    return;
                }
                let ids: Vec<u64> = ctx.pend.psp.keys().copied().collect();
                let id = ids[*idx as usize % ids.len()];
                let p = ctx.pend.psp[&id].clone();
                match txn.get_persistent_savepoint(id) {
                    Ok(sp) => {
                        let r = catch_unwind(AssertUnwindSafe(|| txn.restore_savepoint(&sp)));
                        self.judge_restore(ctx, r, p.seq, true, p.snap.clone(), "persistent");
                    }
                    Err(e) => {
                        if self.mode == Mode::Strict {
                            self.viol("C07", "get-persistent", format!("get_persistent_savepoint({id}) failed: {e}"));
                        } else {
                            self.note_error(&e.to_string());
                            ctx.failed = true;
                        }
                    }
                }
            }
            _ => unreachable!(),
        }
    }

    fn judge_restore(
        &mut self,
        ctx: &mut TxnCtx,
        r: std::thread::Result<Result<(), SavepointError>>,
        seq: u64,
        valid: bool,
        snap: Arc<crate::model::Tables>,
        what: &str,
    ) {
        let invalid = !valid || ctx.floor.is_some_and(|f| seq > f);
        let needs_durable = !ctx.durable && ctx.pend.psp.values().any(|p| p.seq > seq);
        match r {
            Err(_) => {
                self.panic_viol("restore_savepoint panicked");
                ctx.failed = true;
            }
            Ok(Ok(())) => {
                if invalid {
                    self.viol("C07", "invalid-restore", format!("restore of an invalidated {what} savepoint (seq {seq}, floor {:?}) succeeded", ctx.floor));
                    return;
                }
                if needs_durable {
                    self.viol("C07", "restore-nondurable", "restore that deletes later persistent savepoints accepted in a non-durable transaction".into());
                    return;
                }
                self.stats.sp_restored += 1;
                self.probe(if what.contains("persistent") { "restore_persistent_ok" } else { "restore_ephemeral_ok" });
                if ctx.dirty {
                    self.probe("restore_in_dirty_txn");
                }
                ctx.pend.tables = (*snap).clone();
                ctx.floor = Some(ctx.floor.map_or(seq, |f| f.min(seq)));
                let before = ctx.pend.psp.len();
                ctx.pend.psp.retain(|_, p| p.seq <= seq);
                if ctx.pend.psp.len() != before {
                    ctx.psp_modified = true;
                }
                ctx.dirty = true;
            }
            Ok(Err(SavepointError::InvalidSavepoint)) => {
                self.probe("restore_refused_invalid");
                if !invalid {
                    self.viol("C07", "restore-refused", format!("restore of a valid {what} savepoint (seq {seq}) refused with InvalidSavepoint"));
                }
            }
            Ok(Err(SavepointError::ImmediateDurabilityRequired)) => {
                if invalid || !needs_durable {
                    self.viol("C07", "restore-refused", format!("restore of {what} savepoint (seq {seq}) refused with ImmediateDurabilityRequired unexpectedly"));
                }
            }
            Ok(Err(e)) => {
                if self.mode == Mode::Strict {
                    self.viol("C07", "restore-error", format!("restore failed: {e}"));
                } else {
                    self.note_error(&e.to_string());
                    // a failed restore poisons the transaction
                    ctx.poisoned = true;
                }
            }
        }
    }

    fn expect_open(ctx: &TxnCtx, open: &[(String, Kind, WHandle)], name: &str, kind: Kind) -> OpenExpect {
        if open.iter().any(|(n, _, _)| n == name) {
            return OpenExpect::AlreadyOpen;
        }
        match ctx.pend.tables.get(name) {
            None => OpenExpect::Ok,
            Some(ts) => {
                let k = ts.kind();
                if k.is_multimap() != kind.is_multimap() {
                    if k.is_multimap() { OpenExpect::IsMultimap } else { OpenExpect::IsNotMultimap }
                } else if k != kind {
                    OpenExpect::TypeMismatch
                } else {
                    OpenExpect::Ok
                }
            }
        }
    }

    /// Open `t` (checking the outcome against the model). Returns the index into `open`.
    fn do_open<'t>(
        &mut self,
        txn: &'t WriteTransaction,
        ctx: &mut TxnCtx,
        open: &mut Vec<(String, Kind, WHandle<'t>)>,
        t: TRef,
    ) -> Option<usize> {
        let name = table_name(t.name);
        let exp = Self::expect_open(ctx, open, &name, t.kind);
        match open_w(txn, &name, t.kind) {
            Ok(h) => {
                if exp != OpenExpect::Ok {
                    self.viol("C17", "open-accepted", format!("opening {name} as {:?} succeeded, expected {exp:?}", t.kind));
                    return None;
                }
                ctx.dirty = true;
                ctx.pend.tables.entry(name.clone()).or_insert_with(|| Arc::new(TableState::new(t.kind)));
                open.push((name, t.kind, h));
                Some(open.len() - 1)
            }
            Err(e) => {
                let c = classify(&e);
                let ok = matches!(
                    (exp, c),
                    (OpenExpect::AlreadyOpen, "AlreadyOpen")
                        | (OpenExpect::IsMultimap, "IsMultimap")
                        | (OpenExpect::IsNotMultimap, "IsNotMultimap")
                        | (OpenExpect::TypeMismatch, "TypeMismatch")
                );
                if !ok {
                    if c == "Storage" && self.mode == Mode::Faulty {
                        self.note_error(&e.to_string());
                        ctx.failed = true;
                    } else {
                        self.viol("C17", "open-error", format!("opening {name} as {:?}: got {c} ({e}), expected {exp:?}", t.kind));
                    }
                }
                None
            }
        }
    }

    /// index of an open handle usable for a data op on `t`, opening it if needed
    fn handle_for<'t>(
        &mut self,
        txn: &'t WriteTransaction,
        ctx: &mut TxnCtx,
        open: &mut Vec<(String, Kind, WHandle<'t>)>,
        t: TRef,
    ) -> Option<usize> {
        let name = table_name(t.name);
        if let Some(i) = open.iter().position(|(n, _, _)| *n == name) {
            if open[i].1 == t.kind {
                return Some(i);
            }
            self.stats.steps_skipped += 1;
            return None;
        }
        self.do_open(txn, ctx, open, t)
    }

    fn sres<T>(&mut self, ctx: &mut TxnCtx, what: &str, r: Result<T, redb::StorageError>) -> Option<T> {
        match r {
            Ok(x) => Some(x),
            Err(e) => {
                if self.mode == Mode::Strict {
                    self.viol("C04", "unexpected-error", format!("{what} failed on a fault-free run: {e}"));
                } else {
                    self.note_error(&e.to_string());
                }
                ctx.failed = true;
                None
            }
        }
    }

    fn apply<'t>(
        &mut self,
        txn: &'t WriteTransaction,
        ctx: &mut TxnCtx,
        open: &mut Vec<(String, Kind, WHandle<'t>)>,
        op: &Op,
    ) {
        match op {
            Op::Open { t } => {
                self.do_open(txn, ctx, open, *t);
            }
            Op::CloseHandle { t } => {
                let name = table_name(t.name);
                if let Some(i) = open.iter().position(|(n, _, _)| *n == name) {
                    open.remove(i);
                }
            }
            Op::Insert { t, k, v } | Op::InsertReserve { t, k, v } | Op::GetMut { t, k, v } => {
                if t.kind.is_multimap() {
                    return;
                }
                let Some(k) = coerce_key(k, t.kind.key_type()) else { return };
                let Some(i) = self.handle_for(txn, ctx, open, *t) else { return };
                let name = open[i].0.clone();
                let WHandle::T(h) = &mut open[i].2 else { return };
                let ov = expect_ov(*v, t.kind.val_is_bytes());
                let bytes = t.kind.val_is_bytes();
                match op {
                    Op::Insert { .. } => {
                        let r = h.insert(&k, &ov);
                        let Some(old) = self.sres(ctx, "insert", r) else { return };
                        let m = Self::table_mut(ctx, &name).map_mut();
                        let exp_old = m.insert(k.clone(), *v).map(|o| expect_ov(o, bytes));
                        if old != exp_old {
                            self.viol("C04", "insert-result", format!("insert({k:?}) into {name} returned a wrong previous value (present: {}, expected present: {})", old.is_some(), exp_old.is_some()));
                        }
                    }
                    Op::InsertReserve { .. } => match h.insert_reserve(&k, &ov) {
                        Some(r) => {
                            if self.sres(ctx, "insert_reserve", r).is_some() {
                                Self::table_mut(ctx, &name).map_mut().insert(k.clone(), *v);
                            }
                        }
                        None => {
                            let r = h.insert(&k, &ov);
                            if self.sres(ctx, "insert", r).is_some() {
                                Self::table_mut(ctx, &name).map_mut().insert(k.clone(), *v);
                            }
                        }
                    },
                    _ => {
                        let r = h.get_mut_set(&k, &ov);
                        let Some(old) = self.sres(ctx, "get_mut", r) else { return };
                        let m = Self::table_mut(ctx, &name).map_mut();
                        let exp_old = m.get(&k).map(|o| expect_ov(*o, bytes));
                        if exp_old.is_some() {
                            m.insert(k.clone(), *v);
                        }
                        if old != exp_old {
                            self.viol("C04", "get_mut-result", format!("get_mut({k:?}) on {name} wrong"));
                        }
                    }
                }
            }
            Op::Entry { t, k, v, mode } => {
                if t.kind.is_multimap() {
                    return;
                }
                let Some(k) = coerce_key(k, t.kind.key_type()) else { return };
                let Some(i) = self.handle_for(txn, ctx, open, *t) else { return };
                let name = open[i].0.clone();
                let WHandle::T(h) = &mut open[i].2 else { return };
                let bytes = t.kind.val_is_bytes();
                let ov = expect_ov(*v, bytes);
                let r = h.entry(&k, &ov, *mode);
                let Some(old) = self.sres(ctx, "entry", r) else { return };
                let m = Self::table_mut(ctx, &name).map_mut();
                let exp_old = m.get(&k).map(|o| expect_ov(*o, bytes));
                match (&exp_old, mode) {
                    (None, _) => {
                        m.insert(k.clone(), *v);
                    }
                    (Some(_), 0) => {}
                    (Some(_), 1) => {
                        m.insert(k.clone(), *v);
                    }
                    (Some(_), _) => {
                        m.remove(&k);
                    }
                }
                if old != exp_old {
                    self.viol("C04", "entry-result", format!("entry({k:?}) on {name}: occupied={}, expected occupied={}", old.is_some(), exp_old.is_some()));
                }
            }
            Op::Get { t, k } | Op::Remove { t, k } => {
                if t.kind.is_multimap() {
                    return;
                }
                let Some(k) = coerce_key(k, t.kind.key_type()) else { return };
                let Some(i) = self.handle_for(txn, ctx, open, *t) else { return };
                let name = open[i].0.clone();
                let WHandle::T(h) = &mut open[i].2 else { return };
                let bytes = t.kind.val_is_bytes();
                let is_get = matches!(op, Op::Get { .. });
                let r = if is_get { h.get(&k) } else { h.remove(&k) };
                let Some(got) = self.sres(ctx, "get/remove", r) else { return };
                let m = Self::table_mut(ctx, &name).map_mut();
                let exp = if is_get { m.get(&k).copied() } else { m.remove(&k) }.map(|o| expect_ov(o, bytes));
                self.probe(match (is_get, exp.is_some()) {
                    (true, true) => "get_present",
                    (true, false) => "get_absent",
                    (false, true) => "remove_present",
                    (false, false) => "remove_absent",
                });
                if got != exp {
                    self.viol("C04", if is_get { "get-result" } else { "remove-result" }, format!("{}({k:?}) on {name}: got present={}, expected present={}", if is_get { "get" } else { "remove" }, got.is_some(), exp.is_some()));
                }
            }
            Op::PopFirst { t } | Op::PopLast { t } => {
                if t.kind.is_multimap() {
                    return;
                }
                let Some(i) = self.handle_for(txn, ctx, open, *t) else { return };
                let name = open[i].0.clone();
                let WHandle::T(h) = &mut open[i].2 else { return };
                let bytes = t.kind.val_is_bytes();
                let first = matches!(op, Op::PopFirst { .. });
                let r = if first { h.pop_first() } else { h.pop_last() };
                let Some(got) = self.sres(ctx, "pop", r) else { return };
                let m = Self::table_mut(ctx, &name).map_mut();
                let exp = if first { m.pop_first() } else { m.pop_last() }.map(|(k, o)| (k, expect_ov(o, bytes)));
                self.probe(if exp.is_some() { "pop_present" } else { "pop_empty" });
                if got != exp {
                    self.viol("C04", "pop-result", format!("pop_{} on {name}: got {:?}, expected {:?}", if first { "first" } else { "last" }, got.map(|p| p.0), exp.map(|p| p.0)));
                }
            }
            Op::Range { t, lo, hi, pattern, take } => {
                if t.kind.is_multimap() {
                    return;
                }
                let kt = t.kind.key_type();
                let (Some(lo), Some(hi)) = (coerce_bd(lo, kt), coerce_bd(hi, kt)) else { return };
                if !bounds_ok(&lo, &hi) {
                    return;
                }
                let Some(i) = self.handle_for(txn, ctx, open, *t) else { return };
                let name = open[i].0.clone();
                let WHandle::T(h) = &open[i].2 else { return };
                let bytes = t.kind.val_is_bytes();
                let r = h.range(&lo, &hi, *pattern, *take);
                let Some(got) = self.sres(ctx, "range", r) else { return };
                let rows: Vec<(KeyVal, OV)> = range_of(ctx.pend.tables[&name].map(), &lo, &hi).into_iter().map(|(k, v)| (k, expect_ov(v, bytes))).collect();
                let exp = consume(&rows, *pattern, *take);
                if got != exp {
                    self.viol("C04", "range-result", format!("range({lo:?},{hi:?}) on {name}: got {} items, expected {}", got.len(), exp.len()));
                }
            }
            Op::FirstLast { t } | Op::Len { t } => {
                let Some(i) = self.handle_for(txn, ctx, open, *t) else { return };
                let name = open[i].0.clone();
                let ts = ctx.pend.tables[&name].clone();
                match &open[i].2 {
                    WHandle::T(h) => {
                        let bytes = t.kind.val_is_bytes();
                        let (f, l, n, ht) = (h.first(), h.last(), h.len(), h.height());
                        let (Some(f), Some(l), Some(n), Some(ht)) = (self.sres(ctx, "first", f), self.sres(ctx, "last", l), self.sres(ctx, "len", n), self.sres(ctx, "stats", ht)) else { return };
                        self.stats.max_height = self.stats.max_height.max(ht);
                        let m = ts.map();
                        let ef = m.iter().next().map(|(k, v)| (k.clone(), expect_ov(*v, bytes)));
                        let el = m.iter().next_back().map(|(k, v)| (k.clone(), expect_ov(*v, bytes)));
                        if f != ef || l != el || n != m.len() as u64 {
                            self.viol("C04", "first-last-len", format!("first/last/len on {name}: len {n}, expected {}", m.len()));
                        }
                    }
                    WHandle::M(h) => {
                        let n = h.len();
                        let Some(n) = self.sres(ctx, "len", n) else { return };
                        if n != ts.len() {
                            self.viol("C09", "mm-len", format!("len() of multimap {name} = {n}, expected {}", ts.len()));
                        }
                    }
                }
            }
            Op::Retain { t, lo, hi, p } => {
                if t.kind.is_multimap() {
                    return;
                }
                let kt = t.kind.key_type();
                let (Some(lo), Some(hi)) = (coerce_bd(lo, kt), coerce_bd(hi, kt)) else { return };
                if !bounds_ok(&lo, &hi) {
                    return;
                }
                let Some(i) = self.handle_for(txn, ctx, open, *t) else { return };
                let name = open[i].0.clone();
                let WHandle::T(h) = &mut open[i].2 else { return };
                match h.retain(&lo, &hi, p) {
                    PredOutcome::Panicked => ctx.poisoned = true,
                    PredOutcome::Done(r) => {
                        if self.sres(ctx, "retain", r).is_none() {
                            return;
                        }
                        let m = Self::table_mut(ctx, &name).map_mut();
                        let doomed: Vec<KeyVal> = range_of(m, &lo, &hi).into_iter().filter(|(k, _)| pred_selects(p, k)).map(|(k, _)| k).collect();
                        for k in doomed {
                            m.remove(&k);
                        }
                    }
                }
            }
            Op::ExtractIf { t, lo, hi, p, pattern, take } => {
                if t.kind.is_multimap() {
                    return;
                }
                let kt = t.kind.key_type();
                let (Some(lo), Some(hi)) = (coerce_bd(lo, kt), coerce_bd(hi, kt)) else { return };
                if !bounds_ok(&lo, &hi) {
                    return;
                }
                let Some(i) = self.handle_for(txn, ctx, open, *t) else { return };
                let name = open[i].0.clone();
                let WHandle::T(h) = &mut open[i].2 else { return };
                let bytes = t.kind.val_is_bytes();
                match h.extract_if(&lo, &hi, p, *pattern, *take) {
                    PredOutcome::Panicked => ctx.poisoned = true,
                    PredOutcome::Done(r) => {
                        let Some(got) = self.sres(ctx, "extract_if", r) else { return };
                        let m = Self::table_mut(ctx, &name).map_mut();
                        let cand: Vec<(KeyVal, OV)> = range_of(m, &lo, &hi).into_iter().filter(|(k, _)| pred_selects(p, k)).map(|(k, v)| (k, expect_ov(v, bytes))).collect();
                        let exp = consume(&cand, *pattern, *take);
                        for (k, _) in &exp {
                            m.remove(k);
                        }
                        if got != exp {
                            self.viol("C04", "extract-result", format!("extract_from_if on {name}: yielded {} entries, expected {}", got.len(), exp.len()));
                        }
                    }
                }
            }
            Op::MmInsert { t, k, v } | Op::MmRemove { t, k, v } => {
                if !t.kind.is_multimap() {
                    return;
                }
                let (Some(k), Some(v)) = (coerce_key(k, t.kind.key_type()), coerce_val_key(v, t.kind.val_type())) else { return };
                let Some(i) = self.handle_for(txn, ctx, open, *t) else { return };
                let name = open[i].0.clone();
                let WHandle::M(h) = &mut open[i].2 else { return };
                let ins = matches!(op, Op::MmInsert { .. });
                let r = if ins { h.insert(&k, &v) } else { h.remove(&k, &v) };
                let Some(got) = self.sres(ctx, "multimap insert/remove", r) else { return };
                let m = Self::table_mut(ctx, &name).mm_mut();
                let exp = if ins {
                    !m.entry(k.clone()).or_default().insert(v.clone())
                } else {
                    let mut present = false;
                    if let Some(s) = m.get_mut(&k) {
                        present = s.remove(&v);
                        if s.is_empty() {
                            m.remove(&k);
                        }
                    }
                    present
                };
                self.probe(match (ins, exp) {
                    (true, false) => "mm_insert_new",
                    (true, true) => "mm_insert_duplicate",
                    (false, true) => "mm_remove_present",
                    (false, false) => "mm_remove_absent",
                });
                if got != exp {
                    self.viol("C09", "mm-insert-remove", format!("multimap {} on {name} ({k:?}) returned {got}, expected {exp}", if ins { "insert" } else { "remove" }));
                }
            }
            Op::MmRemoveAll { t, k } | Op::MmGet { t, k, .. } => {
                if !t.kind.is_multimap() {
                    return;
                }
                let Some(k) = coerce_key(k, t.kind.key_type()) else { return };
                let Some(i) = self.handle_for(txn, ctx, open, *t) else { return };
                let name = open[i].0.clone();
                let WHandle::M(h) = &mut open[i].2 else { return };
                match op {
                    Op::MmRemoveAll { .. } => {
                        let r = h.remove_all(&k);
                        let Some(got) = self.sres(ctx, "remove_all", r) else { return };
                        let exp: Vec<KeyVal> = Self::table_mut(ctx, &name).mm_mut().remove(&k).map(|s| s.into_iter().collect()).unwrap_or_default();
                        self.probe(if exp.is_empty() { "mm_remove_all_absent" } else if exp.len() > 8 { "mm_remove_all_many" } else { "mm_remove_all_some" });
                        if got != exp {
                            self.viol("C09", "mm-remove-all", format!("remove_all({k:?}) on {name}: {} values, expected {}", got.len(), exp.len()));
                        }
                    }
                    Op::MmGet { pattern, .. } => {
                        let r = h.get(&k, *pattern);
                        let Some((n, got)) = self.sres(ctx, "multimap get", r) else { return };
                        let all: Vec<KeyVal> = ctx.pend.tables[&name].mm().get(&k).map(|s| s.iter().cloned().collect()).unwrap_or_default();
                        let exp = consume(&all, *pattern, u32::MAX);
                        self.probe(if all.is_empty() { "mm_get_absent" } else { "mm_get_present" });
                        if got != exp || n != all.len() as u64 {
                            self.viol("C09", "mm-get", format!("get({k:?}) on {name}: len {n}, {} values; expected {}", got.len(), all.len()));
                        }
                    }
                    _ => unreachable!(),
                }
            }
            Op::MmRange { t, lo, hi, rev } => {
                if !t.kind.is_multimap() {
                    return;
                }
                let kt = t.kind.key_type();
                let (Some(lo), Some(hi)) = (coerce_bd(lo, kt), coerce_bd(hi, kt)) else { return };
                if !bounds_ok(&lo, &hi) {
                    return;
                }
                let Some(i) = self.handle_for(txn, ctx, open, *t) else { return };
                let name = open[i].0.clone();
                let WHandle::M(h) = &open[i].2 else { return };
                let r = h.range(&lo, &hi, *rev);
                let Some(got) = self.sres(ctx, "multimap range", r) else { return };
                let mut exp = mm_range_of(ctx.pend.tables[&name].mm(), &lo, &hi);
                if *rev {
                    exp.reverse();
                }
                if got != exp {
                    self.viol("C09", "mm-range", format!("range on multimap {name}: {} keys, expected {}", got.len(), exp.len()));
                }
            }
            Op::Rename { t, to } => {
                let name = table_name(t.name);
                let to_name = table_name(*to);
                let mm = t.kind.is_multimap();
                ctx.dirty = true;
                let exp: &str = if open.iter().any(|(n, _, _)| *n == name) {
                    "AlreadyOpen"
                } else {
                    match ctx.pend.tables.get(&name) {
                        None => "DoesNotExist",
                        Some(ts) if ts.kind().is_multimap() != mm => {
                            if ts.kind().is_multimap() { "IsMultimap" } else { "IsNotMultimap" }
                        }
                        Some(_) if name == to_name => "Ok",
                        Some(_) => match ctx.pend.tables.get(&to_name) {
                            None => "Ok",
                            Some(t2) if t2.kind().is_multimap() != mm => {
                                if t2.kind().is_multimap() { "IsMultimap" } else { "IsNotMultimap" }
                            }
                            Some(_) => "Exists",
                        },
                    }
                };
                let r = if mm {
                    txn.rename_multimap_table(mh(&name), mh(&to_name))
                } else {
                    txn.rename_table(th(&name), th(&to_name))
                };
                let got = match &r {
                    Ok(()) => "Ok",
                    Err(e) => classify(e),
                };
                if got == "Storage" && self.mode == Mode::Faulty {
                    self.note_error("rename storage error");
                    ctx.poisoned = true;
                    return;
                }
                if got != exp {
                    self.viol("C17", "rename-result", format!("rename {name}->{to_name} (multimap={mm}): got {got}, expected {exp}"));
                    return;
                }
                if got == "Ok" && name != to_name {
                    let ts = ctx.pend.tables.remove(&name).unwrap();
                    ctx.pend.tables.insert(to_name, ts);
                }
            }
            Op::Delete { t } => {
                let name = table_name(t.name);
                let mm = t.kind.is_multimap();
                ctx.dirty = true;
                let exp: &str = if open.iter().any(|(n, _, _)| *n == name) {
                    "AlreadyOpen"
                } else {
                    match ctx.pend.tables.get(&name) {
                        None => "false",
                        Some(ts) if ts.kind().is_multimap() != mm => {
                            if ts.kind().is_multimap() { "IsMultimap" } else { "IsNotMultimap" }
                        }
                        Some(_) => "true",
                    }
                };
                let r = if mm { txn.delete_multimap_table(mh(&name)) } else { txn.delete_table(th(&name)) };
                let got = match &r {
                    Ok(true) => "true",
                    Ok(false) => "false",
                    Err(e) => classify(e),
                };
                if got == "Storage" && self.mode == Mode::Faulty {
                    self.note_error("delete storage error");
                    ctx.poisoned = true;
                    return;
                }
                if got != exp {
                    self.viol("C17", "delete-result", format!("delete {name} (multimap={mm}): got {got}, expected {exp}"));
                    return;
                }
                self.probe(match got {
                    "true" => "delete_table_existing",
                    "false" => "delete_table_absent",
                    _ => "delete_table_refused",
                });
                if got == "true" {
                    ctx.pend.tables.remove(&name);
                }
            }
            Op::List => {
                let a = txn.list_tables().map(|it| it.map(|h| h.name().to_string()).collect::<Vec<_>>());
                let b = txn.list_multimap_tables().map(|it| it.map(|h| h.name().to_string()).collect::<Vec<_>>());
                let (Some(mut a), Some(mut b)) = (self.sres(ctx, "list_tables", a), self.sres(ctx, "list_multimap_tables", b)) else { return };
                a.sort();
                b.sort();
                let ea: Vec<String> = ctx.pend.tables.iter().filter(|(_, t)| !t.kind().is_multimap()).map(|(n, _)| n.clone()).collect();
                let eb: Vec<String> = ctx.pend.tables.iter().filter(|(_, t)| t.kind().is_multimap()).map(|(n, _)| n.clone()).collect();
                if a != ea || b != eb {
                    self.viol("C17", "list", format!("list_tables {a:?}/{b:?}, expected {ea:?}/{eb:?}"));
                }
            }
            Op::TypeProbe { made, reopened, as_key } => {
                ctx.dirty = true;
                self.stats.api_calls += 3;
                match crate::custom::type_probe(txn, *made, *reopened, *as_key) {
                    crate::custom::ProbeOutcome::Ok => self.probe("type_probe"),
                    crate::custom::ProbeOutcome::Storage(e) => {
                        if self.mode == Mode::Faulty {
                            self.note_error(&e);
                        } else {
                            self.viol("C04", "unexpected-error", format!("type probe failed on a fault-free run: {e}"));
                        }
                        ctx.failed = true;
                    }
                    crate::custom::ProbeOutcome::Bad(d) => self.viol("C17", "type-probe", d),
                }
            }
            Op::SpEphemeral => {
                if self.eph.len() >= 4 {
                    return;
                }
                match txn.ephemeral_savepoint() {
                    Ok(sp) => {
                        if ctx.dirty {
                            self.viol("C07", "savepoint-dirty", "ephemeral_savepoint() succeeded in a dirty transaction".into());
                            return;
                        }
                        self.sp_seq += 1;
                        self.stats.sp_created += 1;
                        let snap = Arc::new(self.state().tables.clone());
                        let pins = match self.db.as_ref() {
                            Some(db) if self.cfg.deep_oracles && self.mode == Mode::Strict => crate::deep::take_pins(db),
                            _ => None,
                        };
                        self.eph.push(Eph { sp, seq: self.sp_seq, snap, valid: true, pins });
                    }
                    Err(SavepointError::InvalidSavepoint) if ctx.dirty => {}
                    Err(e) => {
                        if self.mode == Mode::Strict {
                            self.viol("C07", "savepoint-error", format!("ephemeral_savepoint failed: {e}"));
                        } else {
                            self.note_error(&e.to_string());
                            ctx.failed = true;
                        }
                    }
                }
            }
            Op::SpPersistent => {
                if ctx.pend.psp.len() >= 3 {
                    return;
                }
                match txn.persistent_savepoint() {
                    Ok(id) => {
                        if !ctx.durable || ctx.dirty {
                            self.viol("C07", "savepoint-dirty", format!("persistent_savepoint() succeeded (durable={}, dirty={})", ctx.durable, ctx.dirty));
                            return;
                        }
                        if ctx.pend.psp.contains_key(&id) {
                            self.viol("C07", "savepoint-id-reused", format!("persistent savepoint id {id} handed out twice"));
                            return;
                        }
                        self.sp_seq += 1;
                        self.stats.sp_created += 1;
                        let snap = Arc::new(self.state().tables.clone());
                        ctx.pend.psp.insert(id, PSp { seq: self.sp_seq, snap });
                        ctx.psp_modified = true;
                    }
                    Err(SavepointError::ImmediateDurabilityRequired) if !ctx.durable => {}
                    Err(SavepointError::InvalidSavepoint) if ctx.durable && ctx.dirty => {}
                    Err(e) => {
                        if self.mode == Mode::Strict {
                            self.viol("C07", "savepoint-error", format!("persistent_savepoint failed: {e} (durable={}, dirty={})", ctx.durable, ctx.dirty));
                        } else {
                            self.note_error(&e.to_string());
                            ctx.failed = true;
                        }
                    }
                }
            }
            Op::SpDeletePersistent { idx } => {
                let ids: Vec<u64> = ctx.pend.psp.keys().copied().collect();
                let (id, exists) = if ids.is_empty() || *idx % 7 == 6 { (1_000_000 + *idx as u64, false) } else { (ids[*idx as usize % ids.len()], true) };
                match txn.delete_persistent_savepoint(id) {
                    Ok(b) => {
                        if !ctx.durable {
                            self.viol("C07", "delete-nondurable", "delete_persistent_savepoint accepted in a non-durable transaction".into());
                            return;
                        }
                        if b != exists {
                            self.viol("C07", "delete-result", format!("delete_persistent_savepoint({id}) = {b}, expected {exists}"));
                            return;
                        }
                        if b {
                            ctx.pend.psp.remove(&id);
                            ctx.psp_modified = true;
                        }
                    }
                    Err(SavepointError::ImmediateDurabilityRequired) if !ctx.durable => {}
                    Err(e) => {
                        if self.mode == Mode::Strict {
                            self.viol("C07", "delete-error", format!("delete_persistent_savepoint failed: {e}"));
                        } else {
                            self.note_error(&e.to_string());
                            ctx.failed = true;
                        }
                    }
                }
            }
            Op::SpDropEphemeral { idx } => {
                if !self.eph.is_empty() {
                    let i = *idx as usize % self.eph.len();
                    self.eph.remove(i);
                }
            }
            Op::SpList => {
                let r = txn.list_persistent_savepoints().map(|it| it.collect::<Vec<u64>>());
                let Some(got) = self.sres(ctx, "list_persistent_savepoints", r) else { return };
                let exp: Vec<u64> = ctx.pend.psp.keys().copied().collect();
                if got != exp {
                    self.viol("C07", "psp-list", format!("list_persistent_savepoints {got:?}, expected {exp:?}"));
                }
            }
            Op::Reader(r) => self.reader_op(r),
            Op::Stats => {
                let r = txn.stats();
                if let Some(s) = self.sres(ctx, "stats", r) {
                    self.stats.max_height = self.stats.max_height.max(s.tree_height());
                }
            }
            Op::SetDurability { .. } | Op::SpRestore { .. } | Op::SpRestorePersistent { .. } => unreachable!(),
        }
    }
}

pub fn short_op(op: &Op) -> String {
    let s = format!("{op:?}");
    if s.len() > 120 { s[..120].to_string() } else { s }
}
