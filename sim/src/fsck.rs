//! Independent decoder ("fsck") for the redb v3 file format.
//!
//! This module reads raw bytes only.  It never calls into the `redb` crate; the only external
//! dependency is `xxhash-rust` (XXH3-128, seed 0) as an independent checksum implementation.
//!
//! # The format, as implemented here
//!
//! All integers are little endian.
//!
//! ## File layout
//! * Super-header: the first `page_size` bytes of the file.  Only the first 320 bytes are used:
//!   a 64 byte database header followed by two 128 byte commit slots (offsets 64 and 192).
//! * Regions follow directly: region `r` starts at
//!   `page_size + r * (region_header_pages + region_max_data_pages) * page_size`; its data pages
//!   start `region_header_pages * page_size` bytes after that.  In v3 the region header is unused
//!   (`region_header_pages` may be 0).  All regions are "full" (`region_max_data_pages` pages)
//!   except possibly the last one (`trailing_pages` pages).
//! * Database header: magic `redb\x1A\x0A\xA9\x0D\x0A` (9 bytes), god byte (offset 9), 2 bytes
//!   padding, then u32 page size (12), region header pages (16), region max data pages (20),
//!   number of full regions (24), data pages in trailing region (28).
//!   God byte: bit0 = primary slot, bit1 = recovery required, bit2 = primary was written with
//!   2-phase commit.
//! * Commit slot (128 bytes): version (0, must be 3), user root non-null (1), system root
//!   non-null (2), user root BtreeHeader (8..40), system root BtreeHeader (40..72), 32 unused
//!   bytes, transaction id (104..112), slot checksum (112..128) = XXH3-128 of bytes 0..112 of the
//!   slot, stored as a little endian u128.
//! * BtreeHeader (32 bytes): page number (8), checksum of the root page (16, LE u128), length
//!   (8, number of entries in the btree).
//! * Page number (u64): bits 0..20 page index (only the low `20 - order` bits are read, the rest is
//!   reserved), bits 20..40 region, bits 59..64 order.  A page of order k is `page_size << k`
//!   bytes long and starts at data-section offset `index * (page_size << k)`, i.e. it covers the
//!   order-0 pages `index << k .. (index + 1) << k`.
//!
//! ## Btree pages
//! * Leaf: `[1, pad, num_pairs u16]`, then (only if the key type is variable width) `num_pairs`
//!   u32 key end offsets, then (only if the value type is variable width) `num_pairs` u32 value
//!   end offsets, then all keys, then all values.  Offsets are absolute within the page.
//! * Branch: `[2, pad, num_keys u16, 4 pad]`, `num_keys + 1` child checksums (16 bytes each),
//!   `num_keys + 1` child page numbers (8 bytes each), (only for variable width keys) `num_keys`
//!   u32 key end offsets, key data.
//!
//! ## Table catalog and tables
//! The user root and the system root each point to a catalog btree `&str -> InternalTableDefinition`.
//! InternalTableDefinition: type (3 = table, 4 = multimap), table_length u64, root non-null u8,
//! BtreeHeader (32, zero when null), fixed key size (u8 flag + u32), fixed value size (u8 flag +
//! u32), key alignment u32, value alignment u32, key type name length u32, key type name, value
//! type name (rest).  A type name is one classification byte (1 internal, 2 user, 3, 4) followed
//! by the utf-8 name.
//!
//! A multimap table is a btree `K -> DynamicCollection`.  A DynamicCollection is a variable
//! width value: first byte 1 = inline, the remaining bytes are a complete leaf page image (with
//! its own type byte 1 and u16 count) whose keys are the multimap values (ascending) and whose
//! values are `()` (fixed width 0); first byte 3 = subtree, followed by a 32 byte BtreeHeader of a
//! btree `V -> ()` whose length field is the number of values.
//!
//! ## System tables (in the system catalog)
//! * `data_pages_unreachable`, `system_pages_unreachable`, `data_pages_allocated`:
//!   `TransactionIdWithPagination (u64 txn, u64 pagination) -> PageList (u16 count, count * u64
//!   page numbers; the value buffer may be longer than needed)`.
//! * `persistent_savepoints`: `SavepointId (u64) -> SerializedSavepoint` (50 bytes: version 3,
//!   savepoint id u64, transaction id u64, root non-null u8, BtreeHeader).
//! * `next_savepoint_id`: `() -> SavepointId`.
//! * `allocator_state`: `AllocatorStateKey (5 bytes: tag, u32) -> &[u8]`; tag 3 = Region(n) whose
//!   value is a serialized BuddyAllocator, 4 = RegionTracker, 5 = TransactionId (u64 value).
//!   Keys order as Deprecated(tags 0..=2) < Region(n) < RegionTracker < TransactionId.
//!
//! # Things learned from the source that docs/design.md does not say (or says differently)
//! * There is **no alignment padding** in leaf or branch pages (the doc mentions optional
//!   padding; the code uses alignment 1 everywhere and stores 1 in the table definition).
//! * **Checksums cover only the used prefix of a page**: `leaf_checksum` = XXH3-128 of
//!   `page[..value_end(last pair)]`; `branch_checksum` = XXH3-128 of `page[..key_end(last key)]`.
//!   Bytes after that (garbage from earlier uses of the page) are not covered.  A leaf with zero
//!   pairs / branch with zero keys cannot be checksummed and is invalid.
//! * The slot layout in the header.rs comment is stale; the real offsets are those given above
//!   (the doc's table is right).  The slot's root `length` is the number of tables in the catalog
//!   and is not covered by any page checksum (only by the slot checksum).
//! * The super-header occupies exactly one page (`page_size` bytes), not "512 rounded up".
//! * The BuddyAllocator in this version has only "free" bitmaps: header `max_order u8, 3 pad,
//!   num_pages u32`, then `max_order + 1` u32 end offsets, then one BtreeBitmap per order.  A
//!   BtreeBitmap is `height u32`, `height` u32 end offsets, then `height` levels (root first), each
//!   `len u32` + u64 words; only the last level (the leaves) carries information: bit i clear
//!   means "block i of this order is free".  An order-0 page is allocated iff no free block of any
//!   order covers it.  There is no "allocated bitmap per order" any more.
//! * For a multimap table the definition's `table_length` is the total number of (key, value)
//!   pairs while the `length` inside its BtreeHeader is the number of distinct keys.
//! * PageList values are written into a reserved 3202 byte buffer, so the value is usually
//!   longer than `2 + 8 * count`.
//! * `TransactionHeader::from_bytes` rejects the whole file if either slot's version byte is not
//!   3, before looking at checksums.
//!
//! # Allocator state vs. reachable pages (the exact rule)
//! A clean close (`Database::drop`) makes one extra durable "quick repair" commit (2-phase, with
//! `ShrinkPolicy::Maximum`) that re-creates the `allocator_state` system table.  The region
//! allocators stored there are a snapshot taken *inside* that commit, after every page the commit
//! allocates has been allocated (the table's value slots are reserved first and then overwritten
//! in place) but *before* the commit frees the system-tree pages it replaced and *before* the
//! file is shrunk.  Consequently, for a cleanly closed image:
//!
//!   set of allocated order-0 pages in the snapshot
//!     == pages of the user tree  ∪  pages of the system tree (including the allocator state
//!        table's own pages)  ∪  pages listed in `data_pages_unreachable`
//!        ∪  pages listed in `system_pages_unreachable`
//!
//! exactly, with two representation caveats: (a) the snapshot may describe more pages per region,
//! or more regions, than the file has now, because the shrink happens after the snapshot -- all
//! such pages are free in the snapshot; (b) there is no region tracker page and no other hidden
//! allocation in v3.  The `TransactionId` entry of the table equals the transaction id of the
//! primary slot, otherwise redb treats the table as stale.
//!
//! # Recovery slot choice (decode_image)
//! Mirrors `UnrepairedDatabaseHeader::select_primary_slot` + `Database::do_repair`:
//! 1. Either slot with version != 3 -> error.
//! 2. If the 2-phase bit is set: the primary slot (error if its slot checksum is bad); the
//!    secondary is never looked at.
//! 3. Otherwise: if the primary slot checksum is bad use the secondary (error if both are bad);
//!    else if the secondary has a strictly larger transaction id and a valid slot checksum use the
//!    secondary; else the primary.  This candidate is kept if its trees verify.  If they do not,
//!    the *other* slot is tried and taken if its trees verify.
//!    Deviations from redb: (i) "verify" here means `decode_forest` reports no error at all
//!    (redb only verifies checksums and page sanity); (ii) in the fallback step redb does not
//!    re-check the other slot's checksum, and neither do we, but `Header::slots[i].valid_checksum`
//!    is available to the caller; (iii) where redb refuses to open because trees do not verify
//!    (both candidates fail, or the 2-phase primary fails and there is no valid allocator state to
//!    quick-repair from) we return the first candidate's forest with its errors instead of `Err`;
//!    `Err` is returned only when the header itself is unusable (magic, geometry, slot versions,
//!    file length, both slot checksums bad, 2-phase primary with a bad slot checksum);
//!    (iv) `parse_header` additionally requires the page size to be a power of two >= 320 (redb
//!    instead compares it with the page size the database was opened with).
//!    redb runs `select_primary_slot` even when recovery is not required, and so do we; for a
//!    cleanly closed image the 2-phase bit is always set, so the result is the primary.
//! When `recovery_required` is set (or the stored layout does not match the image length) the
//! region counts are recomputed from the image length like `DatabaseLayout::recalculate`.

#![allow(dead_code)]

use std::borrow::Cow;
use std::cmp::Ordering;
use std::collections::{BTreeMap, HashSet};

pub const MAX_DEPTH: u32 = 64;
const MAX_ORDER: u8 = 20;
const MAX_PAGE_INDEX: u32 = 0x000F_FFFF;
const MAX_REGIONS: u32 = 0x0010_0000;
const MAGIC: [u8; 9] = [b'r', b'e', b'd', b'b', 0x1A, 0x0A, 0xA9, 0x0D, 0x0A];
const HEADER_SIZE: usize = 320;
const SLOT_SIZE: usize = 128;
const SLOT_OFFSETS: [usize; 2] = [64, 192];
const BTREE_HEADER_SIZE: usize = 32;

pub fn xxh3(data: &[u8]) -> u128 {
    xxhash_rust::xxh3::xxh3_128_with_seed(data, 0)
}

// ---------------------------------------------------------------------------------------------
// checked readers
// ---------------------------------------------------------------------------------------------

fn sl(b: &[u8], start: usize, end: usize) -> Option<&[u8]> {
    if start <= end { b.get(start..end) } else { None }
}
fn rd_u16(b: &[u8], off: usize) -> Option<u16> {
    let s = b.get(off..off.checked_add(2)?)?;
    Some(u16::from_le_bytes([s[0], s[1]]))
}
fn rd_u32(b: &[u8], off: usize) -> Option<u32> {
    let s = b.get(off..off.checked_add(4)?)?;
    Some(u32::from_le_bytes([s[0], s[1], s[2], s[3]]))
}
fn rd_u64(b: &[u8], off: usize) -> Option<u64> {
    let s = b.get(off..off.checked_add(8)?)?;
    let mut a = [0u8; 8];
    a.copy_from_slice(s);
    Some(u64::from_le_bytes(a))
}
fn rd_u128(b: &[u8], off: usize) -> Option<u128> {
    let s = b.get(off..off.checked_add(16)?)?;
    let mut a = [0u8; 16];
    a.copy_from_slice(s);
    Some(u128::from_le_bytes(a))
}

// ---------------------------------------------------------------------------------------------
// page ids, geometry
// ---------------------------------------------------------------------------------------------

#[derive(Clone, Copy, Debug, PartialEq, Eq, PartialOrd, Ord, Hash)]
pub struct PageId {
    pub region: u32,
    pub index: u32,
    pub order: u8,
}

impl PageId {
    pub fn from_u64(raw: u64) -> PageId {
        let order = (raw >> 59) as u8; // 0..=31
        let index = (raw & (0x000F_FFFFu64 >> order)) as u32;
        let region = ((raw >> 20) & 0x000F_FFFF) as u32;
        PageId { region, index, order }
    }
    pub fn to_u64(self) -> u64 {
        (u64::from(self.index) & 0x000F_FFFF)
            | ((u64::from(self.region) & 0x000F_FFFF) << 20)
            | ((u64::from(self.order) & 0x1F) << 59)
    }
    /// first order-0 page covered
    pub fn start0(self) -> u64 {
        u64::from(self.index) << self.order.min(31)
    }
    /// number of order-0 pages covered
    pub fn len0(self) -> u64 {
        1u64 << self.order.min(31)
    }
}

impl std::fmt::Display for PageId {
    fn fmt(&self, f: &mut std::fmt::Formatter<'_>) -> std::fmt::Result {
        write!(f, "r{}.{}/{}", self.region, self.index, self.order)
    }
}

#[derive(Clone, Copy, Debug, PartialEq, Eq)]
pub struct Geometry {
    pub page_size: u32,
    pub region_header_pages: u32,
    pub region_max_data_pages: u32,
    pub full_regions: u32,
    pub trailing_pages: u32,
}

impl Geometry {
    fn region_len(&self) -> u64 {
        (u64::from(self.region_header_pages) + u64::from(self.region_max_data_pages))
            .saturating_mul(u64::from(self.page_size))
    }
    /// Absolute file offset of the page (saturating; an out of range page yields an offset past
    /// the end of the file).
    pub fn page_offset(&self, p: PageId) -> u64 {
        let base = u64::from(self.page_size)
            .saturating_add(u64::from(p.region).saturating_mul(self.region_len()))
            .saturating_add(u64::from(self.region_header_pages).saturating_mul(u64::from(self.page_size)));
        base.saturating_add(u64::from(p.index).saturating_mul(self.page_len(p)))
    }
    pub fn page_len(&self, p: PageId) -> u64 {
        u64::from(self.page_size).saturating_mul(1u64 << p.order.min(31))
    }
    pub fn file_len(&self) -> u64 {
        let mut len = u64::from(self.page_size)
            .saturating_add(u64::from(self.full_regions).saturating_mul(self.region_len()));
        if self.trailing_pages > 0 {
            len = len.saturating_add(
                (u64::from(self.region_header_pages) + u64::from(self.trailing_pages))
                    .saturating_mul(u64::from(self.page_size)),
            );
        }
        len
    }
    pub fn num_regions(&self) -> u32 {
        self.full_regions.saturating_add(u32::from(self.trailing_pages > 0))
    }
    /// number of data pages in the region (0 if the region does not exist)
    pub fn region_pages(&self, region: u32) -> u32 {
        if region < self.full_regions {
            self.region_max_data_pages
        } else if region == self.full_regions {
            self.trailing_pages
        } else {
            0
        }
    }
    /// Is the page inside its region (and therefore inside the file)?
    pub fn check_page(&self, p: PageId) -> Result<(), String> {
        if p.order > MAX_ORDER {
            return Err(format!("page {p}: order {} exceeds maximum {MAX_ORDER}", p.order));
        }
        if p.region >= self.num_regions() {
            return Err(format!("page {p}: region {} does not exist ({} regions)", p.region, self.num_regions()));
        }
        let end0 = (u64::from(p.index) + 1) << p.order;
        let pages = u64::from(self.region_pages(p.region));
        if end0 > pages {
            return Err(format!("page {p}: covers order-0 pages up to {end0} but region has {pages}"));
        }
        let end = self.page_offset(p).saturating_add(self.page_len(p));
        if end > self.file_len() {
            return Err(format!("page {p}: ends at {end} beyond file length {}", self.file_len()));
        }
        Ok(())
    }
    /// `DatabaseLayout::recalculate` + the validation of `layout_from_file_len`.
    pub fn recalculate(&self, file_len: u64) -> Result<Geometry, String> {
        let page_size = u64::from(self.page_size);
        let hdr = u64::from(self.region_header_pages);
        let maxp = u64::from(self.region_max_data_pages);
        if page_size == 0 || maxp == 0 {
            return Err("invalid geometry".into());
        }
        let full_region_size = (hdr + maxp).saturating_mul(page_size);
        let max_len = page_size.saturating_add(u64::from(MAX_REGIONS).saturating_mul(full_region_size));
        if file_len > max_len {
            return Err(format!("file length {file_len} requires more regions than are addressable"));
        }
        let min_len = page_size.saturating_mul(hdr + 2);
        if file_len < min_len {
            return Err(format!("file length {file_len} below the minimum layout"));
        }
        let mut remaining = file_len - page_size;
        let full_regions = remaining / full_region_size;
        remaining -= full_regions * full_region_size;
        let trailing = if remaining >= (hdr + 1) * page_size {
            (remaining - hdr * page_size) / page_size
        } else {
            0
        };
        let g = Geometry {
            page_size: self.page_size,
            region_header_pages: self.region_header_pages,
            region_max_data_pages: self.region_max_data_pages,
            full_regions: u32::try_from(full_regions).map_err(|_| "too many regions".to_string())?,
            trailing_pages: u32::try_from(trailing).map_err(|_| "too many trailing pages".to_string())?,
        };
        if g.file_len() != file_len {
            return Err(format!(
                "file length {file_len} does not correspond to a valid region layout (nearest {})",
                g.file_len()
            ));
        }
        Ok(g)
    }
}

// ---------------------------------------------------------------------------------------------
// header
// ---------------------------------------------------------------------------------------------

#[derive(Clone, Copy, Debug, PartialEq)]
pub struct Root {
    pub page: PageId,
    pub checksum: u128,
    pub length: u64,
}

impl Root {
    fn parse(b: &[u8]) -> Option<Root> {
        Some(Root {
            page: PageId::from_u64(rd_u64(b, 0)?),
            checksum: rd_u128(b, 8)?,
            length: rd_u64(b, 24)?,
        })
    }
}

#[derive(Clone, Debug, PartialEq)]
pub struct Slot {
    pub valid_checksum: bool,
    pub version: u8,
    pub user_root: Option<Root>,
    pub system_root: Option<Root>,
    pub txn_id: u64,
}

#[derive(Clone, Debug, PartialEq)]
pub struct Header {
    pub geometry: Geometry,
    pub god_byte: u8,
    pub primary: usize,
    pub recovery_required: bool,
    pub two_phase: bool,
    pub slots: [Slot; 2],
}

fn parse_slot(b: &[u8]) -> Option<Slot> {
    if b.len() < SLOT_SIZE {
        return None;
    }
    let version = b[0];
    let user_root = if b[1] != 0 { Root::parse(sl(b, 8, 40)?) } else { None };
    let system_root = if b[2] != 0 { Root::parse(sl(b, 40, 72)?) } else { None };
    let txn_id = rd_u64(b, 104)?;
    let stored = rd_u128(b, 112)?;
    Some(Slot {
        valid_checksum: stored == xxh3(&b[..112]),
        version,
        user_root,
        system_root,
        txn_id,
    })
}

pub fn parse_header(bytes: &[u8]) -> Result<Header, String> {
    if bytes.len() < HEADER_SIZE {
        return Err(format!("image too short for a header: {} bytes", bytes.len()));
    }
    if bytes[..MAGIC.len()] != MAGIC {
        return Err("invalid magic number".into());
    }
    let god_byte = bytes[9];
    let geometry = Geometry {
        page_size: rd_u32(bytes, 12).ok_or("short header")?,
        region_header_pages: rd_u32(bytes, 16).ok_or("short header")?,
        region_max_data_pages: rd_u32(bytes, 20).ok_or("short header")?,
        full_regions: rd_u32(bytes, 24).ok_or("short header")?,
        trailing_pages: rd_u32(bytes, 28).ok_or("short header")?,
    };
    let recovery_required = god_byte & 2 != 0;
    if geometry.page_size < HEADER_SIZE as u32 || !geometry.page_size.is_power_of_two() {
        return Err(format!("invalid page size {}", geometry.page_size));
    }
    if geometry.region_max_data_pages == 0 || geometry.region_max_data_pages > MAX_PAGE_INDEX + 1 {
        return Err(format!("invalid region data page count {}", geometry.region_max_data_pages));
    }
    if geometry.region_header_pages > MAX_PAGE_INDEX + 1 {
        return Err(format!("invalid region header page count {}", geometry.region_header_pages));
    }
    if !recovery_required {
        if geometry.trailing_pages > geometry.region_max_data_pages {
            return Err(format!(
                "trailing region data pages {} exceed region max {}",
                geometry.trailing_pages, geometry.region_max_data_pages
            ));
        }
        let n = u64::from(geometry.full_regions) + u64::from(geometry.trailing_pages > 0);
        if n == 0 || n > u64::from(MAX_REGIONS) {
            return Err(format!(
                "invalid region count: full_regions={} trailing_pages={}",
                geometry.full_regions, geometry.trailing_pages
            ));
        }
    }
    let s0 = parse_slot(&bytes[SLOT_OFFSETS[0]..SLOT_OFFSETS[0] + SLOT_SIZE]).ok_or("short slot 0")?;
    let s1 = parse_slot(&bytes[SLOT_OFFSETS[1]..SLOT_OFFSETS[1] + SLOT_SIZE]).ok_or("short slot 1")?;
    Ok(Header {
        geometry,
        god_byte,
        primary: usize::from(god_byte & 1 != 0),
        recovery_required,
        two_phase: god_byte & 4 != 0,
        slots: [s0, s1],
    })
}

// ---------------------------------------------------------------------------------------------
// page sources
// ---------------------------------------------------------------------------------------------

/// How pages are obtained: from an image (borrowed, no copy) or from a callback (owned).
/// Must return exactly `geo.page_len(p)` bytes, or None if the page cannot be read.
pub trait PageSource {
    fn page<'a>(&'a self, geo: &Geometry, p: PageId) -> Option<Cow<'a, [u8]>>;
}

pub struct ImageSource<'a>(pub &'a [u8]);

impl PageSource for ImageSource<'_> {
    fn page<'a>(&'a self, geo: &Geometry, p: PageId) -> Option<Cow<'a, [u8]>> {
        let start = usize::try_from(geo.page_offset(p)).ok()?;
        let len = usize::try_from(geo.page_len(p)).ok()?;
        let end = start.checked_add(len)?;
        self.0.get(start..end).map(Cow::Borrowed)
    }
}

/// Callback based source (e.g. reading the pages of a live database).
pub struct FnSource<F: Fn(&Geometry, PageId) -> Option<Vec<u8>>>(pub F);

impl<F: Fn(&Geometry, PageId) -> Option<Vec<u8>>> PageSource for FnSource<F> {
    fn page<'a>(&'a self, geo: &Geometry, p: PageId) -> Option<Cow<'a, [u8]>> {
        (self.0)(geo, p).map(Cow::Owned)
    }
}

// ---------------------------------------------------------------------------------------------
// output types
// ---------------------------------------------------------------------------------------------

#[derive(Clone, Debug, PartialEq)]
pub enum TableDump {
    Table { key_type: String, value_type: String, entries: Vec<(Vec<u8>, Vec<u8>)> },
    Multimap { key_type: String, value_type: String, entries: Vec<(Vec<u8>, Vec<Vec<u8>>)> },
}

#[derive(Clone, Debug, PartialEq)]
pub struct AllocatorState {
    /// value of the TransactionId entry
    pub txn_id: Option<u64>,
    /// per region: which order-0 pages are allocated (length = the allocator's page count, which
    /// may exceed the region's current size, see the module documentation)
    pub regions: Vec<Vec<bool>>,
    /// all entries parsed (region allocators, region tracker, transaction id)
    pub raw_ok: bool,
    /// a RegionTracker entry was present
    pub has_region_tracker: bool,
}

#[derive(Clone, Debug, Default)]
pub struct Forest {
    /// every structural violation found (empty = well-formed)
    pub errors: Vec<String>,
    /// every page of the user ("data") tree: catalog, tables, multimap subtrees
    pub data_pages: Vec<PageId>,
    /// every page of the system tree
    pub system_pages: Vec<PageId>,
    pub data_freed: Vec<(u64, PageId)>,
    pub system_freed: Vec<(u64, PageId)>,
    pub data_allocated: Vec<(u64, PageId)>,
    /// user tables, logical contents in stored order
    pub tables: BTreeMap<String, TableDump>,
    /// system tables, raw (key, value) bytes in stored order
    pub system_tables: BTreeMap<String, TableDump>,
    /// (savepoint id, transaction id, user root)
    pub savepoints: Vec<(u64, u64, Option<Root>)>,
    pub next_savepoint_id: Option<u64>,
    pub allocator_state: Option<AllocatorState>,
    /// deepest btree seen (a lone leaf has depth 1)
    pub max_depth: u32,
    /// number of checksum mismatches among `errors`
    pub checksum_errors: u32,
    /// number of multimap keys whose values live in a subtree (informational)
    pub subtrees: u32,
}

// ---------------------------------------------------------------------------------------------
// key orderings
// ---------------------------------------------------------------------------------------------

#[derive(Clone, Copy, Debug, PartialEq, Eq)]
enum KeyOrd {
    U64,
    Bytes,
    Unit,
    TxnPag,
    AllocKey,
    Unknown,
}

impl KeyOrd {
    fn for_type(name: &str) -> KeyOrd {
        match name {
            "u64" | "redb::SavepointId" => KeyOrd::U64,
            "&str" | "&[u8]" => KeyOrd::Bytes,
            "()" => KeyOrd::Unit,
            "redb::TransactionIdWithPagination" => KeyOrd::TxnPag,
            "redb::AllocatorStateKey" => KeyOrd::AllocKey,
            _ => KeyOrd::Unknown,
        }
    }
    /// the fixed width the type must have, if the type is known
    fn expected_width(name: &str) -> Option<Option<usize>> {
        match name {
            "u64" | "redb::SavepointId" => Some(Some(8)),
            "&str" | "&[u8]" => Some(None),
            "()" => Some(Some(0)),
            "redb::TransactionIdWithPagination" => Some(Some(16)),
            "redb::AllocatorStateKey" => Some(Some(5)),
            "redb::PageList" | "redb::SerializedSavepoint" | "redb::DynamicCollection" => Some(None),
            _ => None,
        }
    }
    fn checks_order(self) -> bool {
        self != KeyOrd::Unknown
    }
    fn cmp(self, a: &[u8], b: &[u8]) -> Ordering {
        match self {
            KeyOrd::U64 => match (rd_u64(a, 0), rd_u64(b, 0)) {
                (Some(x), Some(y)) if a.len() == 8 && b.len() == 8 => x.cmp(&y),
                _ => a.cmp(b),
            },
            KeyOrd::Bytes | KeyOrd::Unknown => a.cmp(b),
            KeyOrd::Unit => Ordering::Equal,
            KeyOrd::TxnPag => {
                if a.len() == 16 && b.len() == 16 {
                    let ka = (rd_u64(a, 0).unwrap_or(0), rd_u64(a, 8).unwrap_or(0));
                    let kb = (rd_u64(b, 0).unwrap_or(0), rd_u64(b, 8).unwrap_or(0));
                    ka.cmp(&kb)
                } else {
                    a.cmp(b)
                }
            }
            KeyOrd::AllocKey => {
                fn rank(k: &[u8]) -> (u32, u32) {
                    match k.first() {
                        Some(0..=2) => (0, 0),
                        Some(3) => (1, rd_u32(k, 1).unwrap_or(0)),
                        Some(4) => (2, 0),
                        Some(5) => (3, 0),
                        Some(x) => (4 + u32::from(*x), 0),
                        None => (0, 0),
                    }
                }
                rank(a).cmp(&rank(b))
            }
        }
    }
}

// ---------------------------------------------------------------------------------------------
// page parsing
// ---------------------------------------------------------------------------------------------

pub type Range2 = (usize, usize);

pub struct LeafView {
    /// (key range, value range) per pair
    pub pairs: Vec<(Range2, Range2)>,
    /// end of the used part of the page (= what the checksum covers)
    pub used: usize,
}

/// Parses a leaf page image (also used for inline multimap collections).
pub fn parse_leaf(page: &[u8], fk: Option<usize>, fv: Option<usize>) -> Result<LeafView, String> {
    let len = page.len();
    if len < 4 {
        return Err(format!("leaf shorter than its header ({len} bytes)"));
    }
    if page[0] != 1 {
        return Err(format!("leaf type byte is {}", page[0]));
    }
    let n = usize::from(rd_u16(page, 2).unwrap_or(0));
    if n == 0 {
        return Err("leaf has zero pairs".into());
    }
    let mut key_section = 4usize;
    if fk.is_none() {
        key_section += 4 * n;
    }
    let value_ends_at = key_section; // offset of the value end table, if present
    if fv.is_none() {
        key_section += 4 * n;
    }
    if key_section > len {
        return Err(format!("leaf with {n} pairs: offset tables end at {key_section} beyond page length {len}"));
    }
    let mut pairs: Vec<(Range2, Range2)> = Vec::with_capacity(n);
    let mut prev = key_section;
    for i in 0..n {
        let end = match fk {
            Some(w) => key_section.checked_add(w.checked_mul(i + 1).ok_or("key width overflow")?).ok_or("key offset overflow")?,
            None => rd_u32(page, 4 + 4 * i).ok_or("key end table out of bounds")? as usize,
        };
        if end < prev {
            return Err(format!("leaf key {i}: end offset {end} before start {prev}"));
        }
        if end > len {
            return Err(format!("leaf key {i}: end offset {end} beyond page length {len}"));
        }
        pairs.push(((prev, end), (0, 0)));
        prev = end;
    }
    let values_start = prev;
    for (i, pair) in pairs.iter_mut().enumerate() {
        let end = match fv {
            Some(w) => values_start.checked_add(w.checked_mul(i + 1).ok_or("value width overflow")?).ok_or("value offset overflow")?,
            None => rd_u32(page, value_ends_at + 4 * i).ok_or("value end table out of bounds")? as usize,
        };
        if end < prev {
            return Err(format!("leaf value {i}: end offset {end} before start {prev}"));
        }
        if end > len {
            return Err(format!("leaf value {i}: end offset {end} beyond page length {len}"));
        }
        pair.1 = (prev, end);
        prev = end;
    }
    Ok(LeafView { pairs, used: prev })
}

pub struct BranchView {
    /// (checksum, page) per child
    pub children: Vec<(u128, PageId)>,
    /// routing key ranges
    pub keys: Vec<Range2>,
    /// end of the used part of the page (= what the checksum covers)
    pub used: usize,
}

pub fn parse_branch(page: &[u8], fk: Option<usize>) -> Result<BranchView, String> {
    let len = page.len();
    if len < 8 {
        return Err(format!("branch shorter than its header ({len} bytes)"));
    }
    if page[0] != 2 {
        return Err(format!("branch type byte is {}", page[0]));
    }
    let n = usize::from(rd_u16(page, 2).unwrap_or(0));
    if n == 0 {
        return Err("branch has zero keys".into());
    }
    let nc = n + 1;
    let pages_at = 8 + 16 * nc;
    let key_ends_at = pages_at + 8 * nc;
    let key_section = if fk.is_none() { key_ends_at + 4 * n } else { key_ends_at };
    if key_section > len {
        return Err(format!("branch with {n} keys: tables end at {key_section} beyond page length {len}"));
    }
    let mut children = Vec::with_capacity(nc);
    for i in 0..nc {
        let c = rd_u128(page, 8 + 16 * i).ok_or("child checksum out of bounds")?;
        let p = rd_u64(page, pages_at + 8 * i).ok_or("child page number out of bounds")?;
        children.push((c, PageId::from_u64(p)));
    }
    let mut keys = Vec::with_capacity(n);
    let mut prev = key_section;
    for i in 0..n {
        let end = match fk {
            Some(w) => key_section.checked_add(w.checked_mul(i + 1).ok_or("key width overflow")?).ok_or("key offset overflow")?,
            None => rd_u32(page, key_ends_at + 4 * i).ok_or("key end table out of bounds")? as usize,
        };
        if end < prev {
            return Err(format!("branch key {i}: end offset {end} before start {prev}"));
        }
        if end > len {
            return Err(format!("branch key {i}: end offset {end} beyond page length {len}"));
        }
        keys.push((prev, end));
        prev = end;
    }
    Ok(BranchView { children, keys, used: prev })
}

/// The checksum redb stores for this page: XXH3-128 over the used prefix (see module docs).
pub fn page_checksum(page: &[u8], fk: Option<usize>, fv: Option<usize>) -> Result<u128, String> {
    match page.first() {
        Some(1) => parse_leaf(page, fk, fv).map(|l| xxh3(&page[..l.used])),
        Some(2) => parse_branch(page, fk).map(|b| xxh3(&page[..b.used])),
        Some(t) => Err(format!("page type byte is {t}")),
        None => Err("empty page".into()),
    }
}

// ---------------------------------------------------------------------------------------------
// table definitions
// ---------------------------------------------------------------------------------------------

/// A decoded InternalTableDefinition (the value type of the catalog btrees).
#[derive(Clone, Debug)]
pub struct TableDef {
    pub multimap: bool,
    pub table_length: u64,
    pub root: Option<Root>,
    /// fixed key width, None = variable
    pub fk: Option<usize>,
    /// fixed value width, None = variable
    pub fv: Option<usize>,
    pub key_align: u32,
    pub value_align: u32,
    pub key_type: String,
    pub value_type: String,
}

fn parse_type_name(b: &[u8]) -> Result<String, String> {
    let (&class, name) = b.split_first().ok_or("empty type name")?;
    if !(1..=4).contains(&class) {
        return Err(format!("type name classification byte {class}"));
    }
    String::from_utf8(name.to_vec()).map_err(|_| "type name is not utf-8".to_string())
}

pub fn parse_table_def(b: &[u8]) -> Result<TableDef, String> {
    let short = || "table definition too short".to_string();
    let multimap = match b.first() {
        Some(3) => false,
        Some(4) => true,
        Some(x) => return Err(format!("table type byte {x}")),
        None => return Err(short()),
    };
    let mut off = 1;
    let table_length = rd_u64(b, off).ok_or_else(short)?;
    off += 8;
    let non_null = *b.get(off).ok_or_else(short)?;
    off += 1;
    let root_bytes = sl(b, off, off + BTREE_HEADER_SIZE).ok_or_else(short)?;
    let root = if non_null != 0 { Root::parse(root_bytes) } else { None };
    off += BTREE_HEADER_SIZE;
    let kflag = *b.get(off).ok_or_else(short)?;
    let kw = rd_u32(b, off + 1).ok_or_else(short)?;
    off += 5;
    let vflag = *b.get(off).ok_or_else(short)?;
    let vw = rd_u32(b, off + 1).ok_or_else(short)?;
    off += 5;
    let key_align = rd_u32(b, off).ok_or_else(short)?;
    off += 4;
    let value_align = rd_u32(b, off).ok_or_else(short)?;
    off += 4;
    let ktl = rd_u32(b, off).ok_or_else(short)? as usize;
    off += 4;
    let kt_end = off.checked_add(ktl).ok_or_else(short)?;
    let key_type = parse_type_name(sl(b, off, kt_end).ok_or_else(short)?)?;
    let value_type = parse_type_name(sl(b, kt_end, b.len()).ok_or_else(short)?)?;
    Ok(TableDef {
        multimap,
        table_length,
        root,
        fk: if kflag != 0 { Some(kw as usize) } else { None },
        fv: if vflag != 0 { Some(vw as usize) } else { None },
        key_align,
        value_align,
        key_type,
        value_type,
    })
}

// ---------------------------------------------------------------------------------------------
// allocator state parsing
// ---------------------------------------------------------------------------------------------

/// Returns the leaf level (len, words) of a serialized BtreeBitmap.
fn parse_btree_bitmap(b: &[u8]) -> Result<(u32, Vec<u64>), String> {
    let height = rd_u32(b, 0).ok_or("bitmap: missing height")? as usize;
    if height == 0 || height > 16 {
        return Err(format!("bitmap: implausible height {height}"));
    }
    let mut start = 4 + 4 * height;
    let mut leaf: Option<(u32, Vec<u64>)> = None;
    for level in 0..height {
        let end = rd_u32(b, 4 + 4 * level).ok_or("bitmap: missing level end offset")? as usize;
        let data = sl(b, start, end).ok_or_else(|| format!("bitmap: level {level} range {start}..{end} out of bounds"))?;
        if data.len() < 4 || (data.len() - 4) % 8 != 0 {
            return Err(format!("bitmap: level {level} has bad length {}", data.len()));
        }
        let len = rd_u32(data, 0).ok_or("bitmap: missing level length")?;
        let words = (data.len() - 4) / 8;
        if (len as usize).div_ceil(64) > words {
            return Err(format!("bitmap: level {level} has {len} bits but only {words} words"));
        }
        if level + 1 == height {
            let mut w = Vec::with_capacity(words);
            for i in 0..words {
                w.push(rd_u64(data, 4 + 8 * i).ok_or("bitmap: word out of bounds")?);
            }
            leaf = Some((len, w));
        }
        start = end;
    }
    if start != b.len() {
        return Err(format!("bitmap: {} trailing bytes", b.len().saturating_sub(start)));
    }
    leaf.ok_or_else(|| "bitmap: no levels".to_string())
}

/// Parses a serialized BuddyAllocator into "order-0 page i is allocated".
pub fn parse_buddy_allocator(b: &[u8]) -> Result<Vec<bool>, String> {
    let max_order = *b.first().ok_or("buddy: empty")?;
    if max_order > MAX_ORDER {
        return Err(format!("buddy: max order {max_order}"));
    }
    let num_pages = rd_u32(b, 4).ok_or("buddy: missing page count")?;
    if num_pages > MAX_PAGE_INDEX + 1 {
        return Err(format!("buddy: page count {num_pages}"));
    }
    let orders = usize::from(max_order) + 1;
    let mut allocated = vec![true; num_pages as usize];
    let mut start = 8 + 4 * orders;
    for order in 0..orders {
        let end = rd_u32(b, 8 + 4 * order).ok_or("buddy: missing order end offset")? as usize;
        let data = sl(b, start, end).ok_or_else(|| format!("buddy: order {order} range {start}..{end} out of bounds"))?;
        let (len, words) = parse_btree_bitmap(data).map_err(|e| format!("buddy order {order}: {e}"))?;
        if len != num_pages >> order {
            return Err(format!("buddy order {order}: bitmap has {len} entries, expected {}", num_pages >> order));
        }
        for (wi, &w) in words.iter().enumerate() {
            if w == u64::MAX {
                continue;
            }
            for bit in 0..64usize {
                let i = wi * 64 + bit;
                if i >= len as usize {
                    break;
                }
                if w & (1u64 << bit) == 0 {
                    // free block i of this order
                    let s = i << order;
                    let e = (i + 1) << order;
                    let blk = allocated
                        .get_mut(s..e)
                        .ok_or_else(|| format!("buddy order {order}: free block {i} beyond page count"))?;
                    for x in blk.iter_mut() {
                        if !*x {
                            return Err(format!("buddy order {order}: block {i} is free at two orders"));
                        }
                        *x = false;
                    }
                }
            }
        }
        start = end;
    }
    if start != b.len() {
        return Err(format!("buddy: {} trailing bytes", b.len().saturating_sub(start)));
    }
    Ok(allocated)
}

fn parse_region_tracker(b: &[u8]) -> Result<(), String> {
    let orders = rd_u32(b, 0).ok_or("region tracker: missing order count")? as usize;
    if orders == 0 || orders > 64 {
        return Err(format!("region tracker: {orders} orders"));
    }
    let mut start = 4 + 4 * orders;
    for i in 0..orders {
        let l = rd_u32(b, 4 + 4 * i).ok_or("region tracker: missing length")? as usize;
        let end = start.checked_add(l).ok_or("region tracker: overflow")?;
        let data = sl(b, start, end).ok_or("region tracker: bitmap out of bounds")?;
        parse_btree_bitmap(data).map_err(|e| format!("region tracker order {i}: {e}"))?;
        start = end;
    }
    if start != b.len() {
        return Err(format!("region tracker: {} trailing bytes", b.len().saturating_sub(start)));
    }
    Ok(())
}

// ---------------------------------------------------------------------------------------------
// the walker
// ---------------------------------------------------------------------------------------------

struct TreeSpec<'n> {
    name: &'n str,
    ord: KeyOrd,
    fk: Option<usize>,
    fv: Option<usize>,
}

struct WalkState {
    entries: Vec<(Vec<u8>, Vec<u8>)>,
    leaf_depth: Option<u32>,
    depth_reported: bool,
}

struct Ctx<'a> {
    src: &'a dyn PageSource,
    geo: Geometry,
    errors: Vec<String>,
    checksum_errors: u32,
    pages: Vec<PageId>,
    visited: HashSet<u64>,
    max_depth: u32,
    subtrees: u32,
}

impl<'a> Ctx<'a> {
    fn err(&mut self, msg: String) {
        // bound memory on pathological inputs
        if self.errors.len() < 10_000 {
            self.errors.push(msg);
        }
    }

    fn walk_tree(&mut self, spec: &TreeSpec<'_>, root: Root) -> Vec<(Vec<u8>, Vec<u8>)> {
        let mut st = WalkState { entries: Vec::new(), leaf_depth: None, depth_reported: false };
        self.walk_page(spec, root.page, root.checksum, 1, None, None, &mut st);
        if root.length != st.entries.len() as u64 {
            self.err(format!(
                "{}: btree header length {} but {} entries present",
                spec.name,
                root.length,
                st.entries.len()
            ));
        }
        st.entries
    }

    #[allow(clippy::too_many_arguments)]
    fn walk_page(
        &mut self,
        spec: &TreeSpec<'_>,
        p: PageId,
        expected: u128,
        depth: u32,
        lower: Option<&[u8]>, // exclusive
        upper: Option<&[u8]>, // inclusive
        st: &mut WalkState,
    ) {
        if depth > MAX_DEPTH {
            self.err(format!("{}: page {p}: depth limit {MAX_DEPTH} exceeded", spec.name));
            return;
        }
        if let Err(e) = self.geo.check_page(p) {
            self.err(format!("{}: {e}", spec.name));
            return;
        }
        if !self.visited.insert(p.to_u64()) {
            self.err(format!("{}: page {p} referenced more than once", spec.name));
            return;
        }
        self.pages.push(p);
        self.max_depth = self.max_depth.max(depth);
        let src = self.src;
        let Some(page) = src.page(&self.geo, p) else {
            self.err(format!("{}: page {p} could not be read", spec.name));
            return;
        };
        let page: &[u8] = &page;
        if page.len() as u64 != self.geo.page_len(p) {
            self.err(format!("{}: page {p}: source returned {} bytes", spec.name, page.len()));
            return;
        }
        match page[0] {
            1 => {
                let leaf = match parse_leaf(page, spec.fk, spec.fv) {
                    Ok(l) => l,
                    Err(e) => {
                        self.err(format!("{}: page {p}: {e}", spec.name));
                        return;
                    }
                };
                let computed = xxh3(&page[..leaf.used]);
                if computed != expected {
                    self.checksum_errors += 1;
                    self.err(format!(
                        "{}: leaf page {p}: checksum mismatch (stored {expected:032x}, computed {computed:032x})",
                        spec.name
                    ));
                }
                match st.leaf_depth {
                    None => st.leaf_depth = Some(depth),
                    Some(d) if d != depth && !st.depth_reported => {
                        st.depth_reported = true;
                        self.err(format!("{}: leaf page {p} at depth {depth}, other leaves at depth {d}", spec.name));
                    }
                    _ => {}
                }
                let n = leaf.pairs.len();
                st.entries.reserve(n);
                for (i, &((ks, ke), (vs, ve))) in leaf.pairs.iter().enumerate() {
                    let key = &page[ks..ke];
                    let value = &page[vs..ve];
                    if spec.ord.checks_order() {
                        if let Some((prev, _)) = st.entries.last() {
                            if spec.ord.cmp(prev, key) != Ordering::Less {
                                self.err(format!(
                                    "{}: leaf page {p} entry {i}: key {} not greater than previous key {}",
                                    spec.name,
                                    hex(key),
                                    hex(prev)
                                ));
                            }
                        }
                        if i == 0 {
                            if let Some(lo) = lower {
                                if spec.ord.cmp(lo, key) != Ordering::Less {
                                    self.err(format!(
                                        "{}: leaf page {p}: first key {} not greater than routing key {} on its left",
                                        spec.name,
                                        hex(key),
                                        hex(lo)
                                    ));
                                }
                            }
                        }
                        if i + 1 == n {
                            if let Some(up) = upper {
                                if spec.ord.cmp(key, up) == Ordering::Greater {
                                    self.err(format!(
                                        "{}: leaf page {p}: last key {} greater than routing key {} on its right",
                                        spec.name,
                                        hex(key),
                                        hex(up)
                                    ));
                                }
                            }
                        }
                    }
                    st.entries.push((key.to_vec(), value.to_vec()));
                }
            }
            2 => {
                let br = match parse_branch(page, spec.fk) {
                    Ok(b) => b,
                    Err(e) => {
                        self.err(format!("{}: page {p}: {e}", spec.name));
                        return;
                    }
                };
                let computed = xxh3(&page[..br.used]);
                if computed != expected {
                    self.checksum_errors += 1;
                    self.err(format!(
                        "{}: branch page {p}: checksum mismatch (stored {expected:032x}, computed {computed:032x})",
                        spec.name
                    ));
                }
                let nk = br.keys.len();
                if spec.ord.checks_order() {
                    for i in 1..nk {
                        let a = &page[br.keys[i - 1].0..br.keys[i - 1].1];
                        let b = &page[br.keys[i].0..br.keys[i].1];
                        if spec.ord.cmp(a, b) != Ordering::Less {
                            self.err(format!(
                                "{}: branch page {p}: routing key {i} ({}) not greater than key {} ({})",
                                spec.name,
                                hex(b),
                                i - 1,
                                hex(a)
                            ));
                        }
                    }
                }
                for (i, &(csum, child)) in br.children.iter().enumerate() {
                    let lo = if i == 0 { lower } else { Some(&page[br.keys[i - 1].0..br.keys[i - 1].1]) };
                    let up = if i == nk { upper } else { Some(&page[br.keys[i].0..br.keys[i].1]) };
                    self.walk_page(spec, child, csum, depth + 1, lo, up, st);
                }
            }
            t => {
                self.err(format!("{}: page {p}: page type byte is {t} (expected 1 or 2)", spec.name));
            }
        }
    }

    /// Walks the catalog of one tree and every table in it.  Returns (name, def, raw entries).
    fn walk_catalog(&mut self, which: &str, root: Option<Root>) -> Vec<(String, TableDef, Vec<(Vec<u8>, Vec<u8>)>)> {
        let mut out = Vec::new();
        let Some(root) = root else { return out };
        let cat_name = format!("{which} catalog");
        let spec = TreeSpec { name: &cat_name, ord: KeyOrd::Bytes, fk: None, fv: None };
        let defs = self.walk_tree(&spec, root);
        for (name_bytes, def_bytes) in defs {
            let name = String::from_utf8_lossy(&name_bytes).into_owned();
            let tname = format!("{which} table '{name}'");
            if std::str::from_utf8(&name_bytes).is_err() {
                self.err(format!("{tname}: name is not utf-8"));
            }
            let def = match parse_table_def(&def_bytes) {
                Ok(d) => d,
                Err(e) => {
                    self.err(format!("{tname}: {e}"));
                    continue;
                }
            };
            if def.key_align != 1 || def.value_align != 1 {
                self.err(format!("{tname}: alignment {}/{} (expected 1/1)", def.key_align, def.value_align));
            }
            let mut ord = KeyOrd::for_type(&def.key_type);
            if let Some(w) = KeyOrd::expected_width(&def.key_type) {
                if w != def.fk {
                    self.err(format!("{tname}: key type {} stored with fixed width {:?}", def.key_type, def.fk));
                    ord = KeyOrd::Unknown;
                }
            }
            if let Some(w) = KeyOrd::expected_width(&def.value_type) {
                if w != def.fv {
                    self.err(format!("{tname}: value type {} stored with fixed width {:?}", def.value_type, def.fv));
                }
            }
            let entries = match def.root {
                None => Vec::new(),
                Some(r) => {
                    // a multimap's values are DynamicCollections (variable width)
                    let fv = if def.multimap { None } else { def.fv };
                    let spec = TreeSpec { name: &tname, ord, fk: def.fk, fv };
                    self.walk_tree(&spec, r)
                }
            };
            if !def.multimap && def.table_length != entries.len() as u64 {
                self.err(format!("{tname}: table_length {} but {} entries present", def.table_length, entries.len()));
            }
            out.push((name, def, entries));
        }
        out
    }

    /// Expands the DynamicCollections of a multimap table.
    fn expand_multimap(
        &mut self,
        tname: &str,
        def: &TableDef,
        raw: Vec<(Vec<u8>, Vec<u8>)>,
    ) -> Vec<(Vec<u8>, Vec<Vec<u8>>)> {
        let mut vord = KeyOrd::for_type(&def.value_type);
        if let Some(w) = KeyOrd::expected_width(&def.value_type) {
            if w != def.fv {
                vord = KeyOrd::Unknown;
            }
        }
        let mut out = Vec::with_capacity(raw.len());
        let mut total: u64 = 0;
        for (key, coll) in raw {
            let mut values: Vec<Vec<u8>> = Vec::new();
            match coll.first() {
                Some(1) => match parse_leaf(&coll[1..], def.fv, Some(0)) {
                    Ok(leaf) => {
                        let data = &coll[1..];
                        for (i, &((ks, ke), _)) in leaf.pairs.iter().enumerate() {
                            let v = &data[ks..ke];
                            if vord.checks_order() {
                                if let Some(prev) = values.last() {
                                    if vord.cmp(prev, v) != Ordering::Less {
                                        self.err(format!(
                                            "{tname}: key {}: inline value {i} ({}) not greater than previous ({})",
                                            hex(&key),
                                            hex(v),
                                            hex(prev)
                                        ));
                                    }
                                }
                            }
                            values.push(v.to_vec());
                        }
                    }
                    Err(e) => self.err(format!("{tname}: key {}: inline collection: {e}", hex(&key))),
                },
                Some(3) => {
                    if coll.len() != 1 + BTREE_HEADER_SIZE {
                        self.err(format!("{tname}: key {}: subtree collection is {} bytes", hex(&key), coll.len()));
                    }
                    match sl(&coll, 1, 1 + BTREE_HEADER_SIZE).and_then(Root::parse) {
                        Some(r) => {
                            self.subtrees += 1;
                            let sname = format!("{tname} subtree of key {}", hex(&key));
                            let spec = TreeSpec { name: &sname, ord: vord, fk: def.fv, fv: Some(0) };
                            values = self.walk_tree(&spec, r).into_iter().map(|(k, _)| k).collect();
                        }
                        None => self.err(format!("{tname}: key {}: subtree header truncated", hex(&key))),
                    }
                }
                Some(t) => self.err(format!("{tname}: key {}: collection type byte {t}", hex(&key))),
                None => self.err(format!("{tname}: key {}: empty collection", hex(&key))),
            }
            if values.is_empty() {
                self.err(format!("{tname}: key {} has no values", hex(&key)));
            }
            total += values.len() as u64;
            out.push((key, values));
        }
        if def.table_length != total {
            self.err(format!("{tname}: table_length {} but {total} (key, value) pairs present", def.table_length));
        }
        out
    }
}

fn hex(b: &[u8]) -> String {
    let mut s = String::with_capacity(2 * b.len().min(40) + 2);
    for x in b.iter().take(40) {
        s.push_str(&format!("{x:02x}"));
    }
    if b.len() > 40 {
        s.push_str("..");
    }
    s
}

fn decode_page_list(ctx: &mut Ctx<'_>, tname: &str, entries: &[(Vec<u8>, Vec<u8>)], out: &mut Vec<(u64, PageId)>) {
    for (k, v) in entries {
        let Some(txn) = rd_u64(k, 0) else {
            ctx.err(format!("{tname}: key {} too short", hex(k)));
            continue;
        };
        let Some(n) = rd_u16(v, 0) else {
            ctx.err(format!("{tname}: page list of {} too short", hex(k)));
            continue;
        };
        for i in 0..usize::from(n) {
            match rd_u64(v, 2 + 8 * i) {
                Some(raw) => {
                    let p = PageId::from_u64(raw);
                    if let Err(e) = ctx.geo.check_page(p) {
                        ctx.err(format!("{tname}: txn {txn}: listed {e}"));
                    }
                    out.push((txn, p));
                }
                None => {
                    ctx.err(format!("{tname}: page list of {} claims {n} pages but holds only {i}", hex(k)));
                    break;
                }
            }
        }
    }
}

/// Decode both trees from explicit roots.
pub fn decode_forest(src: &dyn PageSource, geo: &Geometry, user_root: Option<Root>, system_root: Option<Root>) -> Forest {
    let mut f = Forest::default();
    let mut ctx = Ctx {
        src,
        geo: *geo,
        errors: Vec::new(),
        checksum_errors: 0,
        pages: Vec::new(),
        visited: HashSet::new(),
        max_depth: 0,
        subtrees: 0,
    };

    // ---- user tree
    for (name, def, raw) in ctx.walk_catalog("user", user_root) {
        let dump = if def.multimap {
            let tname = format!("user table '{name}'");
            let entries = ctx.expand_multimap(&tname, &def, raw);
            TableDump::Multimap { key_type: def.key_type.clone(), value_type: def.value_type.clone(), entries }
        } else {
            TableDump::Table { key_type: def.key_type.clone(), value_type: def.value_type.clone(), entries: raw }
        };
        f.tables.insert(name, dump);
    }
    f.data_pages = std::mem::take(&mut ctx.pages);

    // ---- system tree
    for (name, def, raw) in ctx.walk_catalog("system", system_root) {
        let tname = format!("system table '{name}'");
        if def.multimap {
            let entries = ctx.expand_multimap(&tname, &def, raw);
            f.system_tables.insert(
                name,
                TableDump::Multimap { key_type: def.key_type.clone(), value_type: def.value_type.clone(), entries },
            );
            continue;
        }
        let expect_types = |ctx: &mut Ctx<'_>, k: &str, v: &str| -> bool {
            if def.key_type != k || def.value_type != v {
                ctx.err(format!("{tname}: types {} -> {} (expected {k} -> {v})", def.key_type, def.value_type));
                false
            } else {
                true
            }
        };
        match name.as_str() {
            "data_pages_unreachable" | "system_pages_unreachable" | "data_pages_allocated" => {
                if expect_types(&mut ctx, "redb::TransactionIdWithPagination", "redb::PageList") {
                    let out = match name.as_str() {
                        "data_pages_unreachable" => &mut f.data_freed,
                        "system_pages_unreachable" => &mut f.system_freed,
                        _ => &mut f.data_allocated,
                    };
                    decode_page_list(&mut ctx, &tname, &raw, out);
                }
            }
            "persistent_savepoints" => {
                if expect_types(&mut ctx, "redb::SavepointId", "redb::SerializedSavepoint") {
                    for (k, v) in &raw {
                        let id = rd_u64(k, 0).unwrap_or(u64::MAX);
                        if v.len() != 50 || v[0] != 3 || v[17] > 1 {
                            ctx.err(format!("{tname}: savepoint {id}: malformed record ({} bytes)", v.len()));
                            continue;
                        }
                        let vid = rd_u64(v, 1).unwrap_or(0);
                        let txn = rd_u64(v, 9).unwrap_or(0);
                        if vid != id {
                            ctx.err(format!("{tname}: key {id} holds savepoint id {vid}"));
                        }
                        let root = if v[17] == 1 { Root::parse(&v[18..50]) } else { None };
                        f.savepoints.push((id, txn, root));
                    }
                }
            }
            "next_savepoint_id" => {
                if expect_types(&mut ctx, "()", "redb::SavepointId") {
                    if raw.len() > 1 {
                        ctx.err(format!("{tname}: {} entries", raw.len()));
                    }
                    if let Some((_, v)) = raw.first() {
                        f.next_savepoint_id = rd_u64(v, 0);
                    }
                }
            }
            "allocator_state" => {
                if expect_types(&mut ctx, "redb::AllocatorStateKey", "&[u8]") {
                    let mut st = AllocatorState { txn_id: None, regions: Vec::new(), raw_ok: true, has_region_tracker: false };
                    for (k, v) in &raw {
                        match k.first() {
                            Some(3) => {
                                let r = rd_u32(k, 1).unwrap_or(u32::MAX);
                                if r as usize != st.regions.len() {
                                    ctx.err(format!("{tname}: region {r} out of sequence (expected {})", st.regions.len()));
                                    st.raw_ok = false;
                                }
                                match parse_buddy_allocator(v) {
                                    Ok(a) => st.regions.push(a),
                                    Err(e) => {
                                        ctx.err(format!("{tname}: region {r}: {e}"));
                                        st.raw_ok = false;
                                        st.regions.push(Vec::new());
                                    }
                                }
                            }
                            Some(4) => {
                                st.has_region_tracker = true;
                                if let Err(e) = parse_region_tracker(v) {
                                    ctx.err(format!("{tname}: {e}"));
                                    st.raw_ok = false;
                                }
                            }
                            Some(5) => {
                                if v.len() == 8 {
                                    st.txn_id = rd_u64(v, 0);
                                } else {
                                    ctx.err(format!("{tname}: transaction id entry is {} bytes", v.len()));
                                    st.raw_ok = false;
                                }
                            }
                            other => {
                                ctx.err(format!("{tname}: unexpected key tag {other:?}"));
                                st.raw_ok = false;
                            }
                        }
                    }
                    f.allocator_state = Some(st);
                }
            }
            _ => {}
        }
        f.system_tables.insert(
            name,
            TableDump::Table { key_type: def.key_type.clone(), value_type: def.value_type.clone(), entries: raw },
        );
    }
    f.system_pages = std::mem::take(&mut ctx.pages);

    // ---- overlap between pages of different orders (exact duplicates were reported while walking)
    let mut spans: Vec<(u32, u64, u64, PageId)> = f
        .data_pages
        .iter()
        .chain(f.system_pages.iter())
        .map(|p| (p.region, p.start0(), p.start0() + p.len0(), *p))
        .collect();
    spans.sort_unstable_by_key(|s| (s.0, s.1, s.2));
    let mut prev: Option<(u32, u64, u64, PageId)> = None;
    for s in spans {
        if let Some(pv) = prev {
            if pv.0 == s.0 && s.1 < pv.2 {
                ctx.err(format!("pages {} and {} overlap", pv.3, s.3));
                // keep the span that reaches further
                if s.2 <= pv.2 {
                    continue;
                }
            }
        }
        prev = Some(s);
    }

    f.errors = ctx.errors;
    f.checksum_errors = ctx.checksum_errors;
    f.max_depth = ctx.max_depth;
    f.subtrees = ctx.subtrees;
    f
}

/// `select_primary_slot` of redb: the slot recovery would look at first.
pub fn select_slot(h: &Header) -> Result<usize, String> {
    let p = h.primary;
    let s = p ^ 1;
    if h.two_phase {
        if !h.slots[p].valid_checksum {
            return Err("primary is corrupted despite 2-phase commit".into());
        }
        return Ok(p);
    }
    if !h.slots[p].valid_checksum {
        if !h.slots[s].valid_checksum {
            return Err("both commit slots are corrupted".into());
        }
        return Ok(s);
    }
    if h.slots[s].txn_id > h.slots[p].txn_id && h.slots[s].valid_checksum {
        return Ok(s);
    }
    Ok(p)
}

/// Emulates recovery's slot choice on a (possibly crashed) image and decodes the chosen slot.
/// See the module documentation for the exact rule.
pub fn decode_image(image: &[u8]) -> Result<(Header, usize, Forest), String> {
    let mut header = parse_header(image)?;
    for (i, s) in header.slots.iter().enumerate() {
        if s.version != 3 {
            return Err(format!("slot {i}: file format version {} (expected 3)", s.version));
        }
    }
    let img_len = image.len() as u64;
    let stored_len = header.geometry.file_len();
    if header.recovery_required {
        header.geometry = header.geometry.recalculate(img_len)?;
    } else if stored_len != img_len {
        if img_len < stored_len {
            return Err(format!("file truncated below stored layout: file_len={img_len}, layout_len={stored_len}"));
        }
        header.geometry = header.geometry.recalculate(img_len)?;
    }
    let candidate = select_slot(&header)?;
    let src = ImageSource(image);
    let geo = header.geometry;
    let forest = decode_forest(&src, &geo, header.slots[candidate].user_root, header.slots[candidate].system_root);
    if header.two_phase || forest.errors.is_empty() {
        return Ok((header, candidate, forest));
    }
    let other = candidate ^ 1;
    let forest2 = decode_forest(&src, &geo, header.slots[other].user_root, header.slots[other].system_root);
    if forest2.errors.is_empty() {
        Ok((header, other, forest2))
    } else {
        Ok((header, candidate, forest))
    }
}
