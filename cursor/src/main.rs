//! C18: gap cursors against a sorted-map cursor, on the experimental_cursor feature build.
//! The same SimDisk and PRNG as Engine A; the whole database runs for real. A plan is a list of
//! cursor sessions (bound, direction, moves / peeks / inserts both ways / removals) over a table
//! with seeded initial contents, with commits, reopen and a dirty restart between sessions.

#[path = "../../sim/src/disk.rs"]
mod disk;
#[path = "../../sim/src/rng.rs"]
mod rng;

use disk::{CrashChoice, CrashWalker, SimDisk};
use redb::{Database, ReadableDatabase, ReadableTable, ReadableTableMetadata, StorageError, TableDefinition};
use rng::{mix, Rng};
use serde::{Deserialize, Serialize};
use serde_json::json;
use std::collections::{BTreeMap, BTreeSet};
use std::ops::Bound;
use std::panic::{catch_unwind, AssertUnwindSafe};
use std::sync::atomic::{AtomicBool, AtomicU64, Ordering};
use std::sync::Mutex;
use std::time::Instant;

#[derive(Clone, Debug, Serialize, Deserialize, PartialEq)]
enum Act {
    Next,
    Prev,
    PeekNext,
    PeekPrev,
    InsBefore(u64, u32),
    InsAfter(u64, u32),
    RemNext,
    RemPrev,
}

#[derive(Clone, Debug, Serialize, Deserialize, PartialEq)]
enum Bd {
    Unb,
    Inc(u64),
    Exc(u64),
}

#[derive(Clone, Debug, Serialize, Deserialize, PartialEq)]
enum Between {
    Nothing,
    Commit { durable: bool },
    Abort,
    Reopen,
    Crash,
}

#[derive(Clone, Debug, Serialize, Deserialize, PartialEq)]
struct Session {
    write: bool,
    upper: bool,
    bound: Bd,
    acts: Vec<Act>,
    /// close() the cursor (true) or just drop it
    close: bool,
    then: Between,
}

#[derive(Clone, Debug, Serialize, Deserialize, PartialEq)]
struct Plan {
    page_size: u32,
    region_pages: Option<u32>,
    cache: u64,
    str_keys: bool,
    prefix: String,
    initial: Vec<(u64, u32)>,
    sessions: Vec<Session>,
    /// bytes of pending cursor inserts that trigger a splice (0 = redb's 1 MiB); lowered so that
    /// insert runs are spliced in the middle of a run (hook verif_knobs)
    #[serde(default)]
    insert_flush: u32,
    /// pages per freed-page record (0 = redb's 400)
    #[serde(default)]
    freed_chunk: u32,
}

#[derive(Clone, Debug, Serialize, Deserialize, PartialEq)]
struct Viol {
    prop: String,
    tag: String,
    detail: String,
}

fn val(k: u64, len: u32, vgen: u64) -> Vec<u8> {
    let mut v = Vec::with_capacity(len as usize);
    let mut x = k.wrapping_mul(0x9E37_79B9_7F4A_7C15) ^ vgen.wrapping_mul(0xD6E8_FEB8_6659_FD93) | 1;
    for i in 0..len as usize {
        if i % 8 == 0 {
            x ^= x << 13;
            x ^= x >> 7;
            x ^= x << 17;
        }
        v.push((x >> ((i % 8) * 8)) as u8);
    }
    v
}

/// keys are numbers; with str_keys they are rendered so that byte order == numeric order and
/// long shared prefixes exercise shortened routing keys
fn skey(p: &Plan, k: u64) -> String {
    format!("{}{:06}", p.prefix, k)
}

trait Tbl {
    fn ins(&mut self, k: u64, v: &[u8]) -> Result<(), StorageError>;
    fn dump(&self) -> Result<Vec<(u64, Vec<u8>)>, StorageError>;
    fn len(&self) -> Result<u64, StorageError>;
    /// run a cursor session; returns the observations
    fn session(&mut self, s: &Session, vgen: &mut u64) -> Result<Vec<Obs>, StorageError>;
}

#[derive(Clone, Debug, PartialEq)]
enum Obs {
    Entry(Option<(u64, Vec<u8>)>),
    Inserted,
    Unordered,
}

fn unkey(p: &Plan, s: &str) -> u64 {
    s[p.prefix.len()..].parse().unwrap_or(u64::MAX)
}

macro_rules! run_acts {
    ($cur:expr, $s:expr, $vgen:expr, $mk:expr, $un:expr, $write:expr) => {{
        let mut out = vec![];
        for a in &$s.acts {
            match a {
                Act::Next => out.push(Obs::Entry($cur.next()?.map(|(k, v)| ($un(k.value()), v.value().to_vec())))),
                Act::Prev => out.push(Obs::Entry($cur.prev()?.map(|(k, v)| ($un(k.value()), v.value().to_vec())))),
                Act::PeekNext => out.push(Obs::Entry($cur.peek_next()?.map(|(k, v)| ($un(k.value()), v.value().to_vec())))),
                Act::PeekPrev => out.push(Obs::Entry($cur.peek_prev()?.map(|(k, v)| ($un(k.value()), v.value().to_vec())))),
                _ => {
                    $write(&mut $cur, a, &mut out)?;
                }
            }
        }
        out
    }};
}

struct UT<'a, 't>(&'a mut redb::Table<'t, u64, &'static [u8]>, &'a Plan);
struct ST<'a, 't>(&'a mut redb::Table<'t, &'static str, &'static [u8]>, &'a Plan);

fn b_u(b: &Bd) -> Bound<u64> {
    match b {
        Bd::Unb => Bound::Unbounded,
        Bd::Inc(k) => Bound::Included(*k),
        Bd::Exc(k) => Bound::Excluded(*k),
    }
}
fn b_s(p: &Plan, b: &Bd) -> Bound<String> {
    match b {
        Bd::Unb => Bound::Unbounded,
        Bd::Inc(k) => Bound::Included(skey(p, *k)),
        Bd::Exc(k) => Bound::Excluded(skey(p, *k)),
    }
}

impl Tbl for UT<'_, '_> {
    fn ins(&mut self, k: u64, v: &[u8]) -> Result<(), StorageError> {
        self.0.insert(k, v)?;
        Ok(())
    }
    fn dump(&self) -> Result<Vec<(u64, Vec<u8>)>, StorageError> {
        let mut o = vec![];
        for r in self.0.iter()? {
            let (k, v) = r?;
            o.push((k.value(), v.value().to_vec()));
        }
        Ok(o)
    }
    fn len(&self) -> Result<u64, StorageError> {
        self.0.len()
    }
    fn session(&mut self, s: &Session, vgen: &mut u64) -> Result<Vec<Obs>, StorageError> {
        let un = |k: u64| k;
        if s.write {
            let mut cur = if s.upper { self.0.upper_bound_mut(b_u(&s.bound))? } else { self.0.lower_bound_mut(b_u(&s.bound))? };
            let mut w = |cur: &mut redb::CursorMut<'_, u64, &'static [u8]>, a: &Act, out: &mut Vec<Obs>| -> Result<(), StorageError> {
                match a {
                    Act::InsBefore(k, len) | Act::InsAfter(k, len) => {
                        *vgen += 1;
                        let v = val(*k, *len, *vgen);
                        let r = if matches!(a, Act::InsBefore(..)) { cur.insert_before(*k, v.as_slice()) } else { cur.insert_after(*k, v.as_slice()) };
                        match r {
                            Ok(()) => out.push(Obs::Inserted),
                            Err(StorageError::UnorderedKey) => out.push(Obs::Unordered),
                            Err(e) => return Err(e),
                        }
                    }
                    Act::RemNext => out.push(Obs::Entry(cur.remove_next()?.map(|(k, v)| (k.value(), v.value().to_vec())))),
                    Act::RemPrev => out.push(Obs::Entry(cur.remove_prev()?.map(|(k, v)| (k.value(), v.value().to_vec())))),
                    _ => {}
                }
                Ok(())
            };
            let out = run_acts!(cur, s, vgen, (), un, w);
            if s.close {
                cur.close()?;
            } else {
                drop(cur);
            }
            Ok(out)
        } else {
            let mut cur = if s.upper { self.0.upper_bound(b_u(&s.bound))? } else { self.0.lower_bound(b_u(&s.bound))? };
            let mut w = |_c: &mut redb::Cursor<'_, u64, &'static [u8]>, _a: &Act, _o: &mut Vec<Obs>| -> Result<(), StorageError> { Ok(()) };
            Ok(run_acts!(cur, s, vgen, (), un, w))
        }
    }
}

impl Tbl for ST<'_, '_> {
    fn ins(&mut self, k: u64, v: &[u8]) -> Result<(), StorageError> {
        self.0.insert(skey(self.1, k).as_str(), v)?;
        Ok(())
    }
    fn dump(&self) -> Result<Vec<(u64, Vec<u8>)>, StorageError> {
        let mut o = vec![];
        for r in self.0.iter()? {
            let (k, v) = r?;
            o.push((unkey(self.1, k.value()), v.value().to_vec()));
        }
        Ok(o)
    }
    fn len(&self) -> Result<u64, StorageError> {
        self.0.len()
    }
    fn session(&mut self, s: &Session, vgen: &mut u64) -> Result<Vec<Obs>, StorageError> {
        let p = self.1;
        let un = |k: &str| unkey(p, k);
        let bound = b_s(p, &s.bound);
        let bref: Bound<&str> = match &bound {
            Bound::Unbounded => Bound::Unbounded,
            Bound::Included(x) => Bound::Included(x.as_str()),
            Bound::Excluded(x) => Bound::Excluded(x.as_str()),
        };
        if s.write {
            let mut cur = if s.upper { self.0.upper_bound_mut(bref)? } else { self.0.lower_bound_mut(bref)? };
            let mut w = |cur: &mut redb::CursorMut<'_, &'static str, &'static [u8]>, a: &Act, out: &mut Vec<Obs>| -> Result<(), StorageError> {
                match a {
                    Act::InsBefore(k, len) | Act::InsAfter(k, len) => {
                        *vgen += 1;
                        let v = val(*k, *len, *vgen);
                        let ks = skey(p, *k);
                        let r = if matches!(a, Act::InsBefore(..)) { cur.insert_before(ks.as_str(), v.as_slice()) } else { cur.insert_after(ks.as_str(), v.as_slice()) };
                        match r {
                            Ok(()) => out.push(Obs::Inserted),
                            Err(StorageError::UnorderedKey) => out.push(Obs::Unordered),
                            Err(e) => return Err(e),
                        }
                    }
                    Act::RemNext => out.push(Obs::Entry(cur.remove_next()?.map(|(k, v)| (unkey(p, k.value()), v.value().to_vec())))),
                    Act::RemPrev => out.push(Obs::Entry(cur.remove_prev()?.map(|(k, v)| (unkey(p, k.value()), v.value().to_vec())))),
                    _ => {}
                }
                Ok(())
            };
            let out = run_acts!(cur, s, vgen, (), un, w);
            if s.close {
                cur.close()?;
            } else {
                drop(cur);
            }
            Ok(out)
        } else {
            let mut cur = if s.upper { self.0.upper_bound(bref)? } else { self.0.lower_bound(bref)? };
            let mut w = |_c: &mut redb::Cursor<'_, &'static str, &'static [u8]>, _a: &Act, _o: &mut Vec<Obs>| -> Result<(), StorageError> { Ok(()) };
            Ok(run_acts!(cur, s, vgen, (), un, w))
        }
    }
}

/// the reference: a sorted map with a gap index
struct Model {
    m: BTreeMap<u64, Vec<u8>>,
}

impl Model {
    fn session(&mut self, s: &Session, vgen: &mut u64) -> Vec<Obs> {
        let keys: Vec<u64> = self.m.keys().copied().collect();
        let mut v: Vec<(u64, Vec<u8>)> = keys.iter().map(|k| (*k, self.m[k].clone())).collect();
        let mut g = match (&s.bound, s.upper) {
            (Bd::Unb, false) => 0,
            (Bd::Unb, true) => v.len(),
            (Bd::Inc(x), false) => v.partition_point(|e| e.0 < *x),
            (Bd::Exc(x), false) => v.partition_point(|e| e.0 <= *x),
            (Bd::Inc(x), true) => v.partition_point(|e| e.0 <= *x),
            (Bd::Exc(x), true) => v.partition_point(|e| e.0 < *x),
        };
        let mut out = vec![];
        for a in &s.acts {
            match a {
                Act::Next => {
                    if g < v.len() {
                        out.push(Obs::Entry(Some(v[g].clone())));
                        g += 1;
                    } else {
                        out.push(Obs::Entry(None));
                    }
                }
                Act::Prev => {
                    if g > 0 {
                        g -= 1;
                        out.push(Obs::Entry(Some(v[g].clone())));
                    } else {
                        out.push(Obs::Entry(None));
                    }
                }
                Act::PeekNext => out.push(Obs::Entry(v.get(g).cloned())),
                Act::PeekPrev => out.push(Obs::Entry(if g > 0 { v.get(g - 1).cloned() } else { None })),
                Act::InsBefore(k, len) | Act::InsAfter(k, len) => {
                    if !s.write {
                        continue;
                    }
                    *vgen += 1;
                    let ok = (g == 0 || v[g - 1].0 < *k) && (g == v.len() || *k < v[g].0);
                    if ok {
                        v.insert(g, (*k, val(*k, *len, *vgen)));
                        if matches!(a, Act::InsBefore(..)) {
                            g += 1;
                        }
                        out.push(Obs::Inserted);
                    } else {
                        out.push(Obs::Unordered);
                    }
                }
                Act::RemNext => {
                    if !s.write {
                        continue;
                    }
                    if g < v.len() {
                        out.push(Obs::Entry(Some(v.remove(g))));
                    } else {
                        out.push(Obs::Entry(None));
                    }
                }
                Act::RemPrev => {
                    if !s.write {
                        continue;
                    }
                    if g > 0 {
                        g -= 1;
                        out.push(Obs::Entry(Some(v.remove(g))));
                    } else {
                        out.push(Obs::Entry(None));
                    }
                }
            }
        }
        self.m = v.into_iter().collect();
        out
    }
}

const UDEF: TableDefinition<u64, &[u8]> = TableDefinition::new("t");
const SDEF: TableDefinition<&str, &[u8]> = TableDefinition::new("t");

fn builder(p: &Plan) -> redb::Builder {
    // thread-local knobs: a run lives on one worker thread
    redb::verif_knobs::set_insert_flush_bytes(p.insert_flush as usize);
    redb::verif_knobs::set_freed_pages_chunk_size(p.freed_chunk as usize);
    let mut b = Database::builder();
    b.verif_set_page_size(p.page_size as usize);
    if let Some(rp) = p.region_pages {
        b.verif_set_region_size(rp as u64 * p.page_size as u64);
    }
    b.set_cache_size(p.cache as usize);
    b
}

struct Stats {
    acts: u64,
    inserts_ok: u64,
    unordered: u64,
    removed: u64,
    sessions: u64,
    max_height: u32,
    hash: u64,
    api: u64,
}

fn with_table<R>(p: &Plan, txn: &redb::WriteTransaction, f: impl FnOnce(&mut dyn Tbl) -> Result<R, StorageError>) -> Result<R, String> {
    if p.str_keys {
        let mut t = txn.open_table(SDEF).map_err(|e| e.to_string())?;
        let r = f(&mut ST(&mut t, p)).map_err(|e| e.to_string());
        r
    } else {
        let mut t = txn.open_table(UDEF).map_err(|e| e.to_string())?;
        let r = f(&mut UT(&mut t, p)).map_err(|e| e.to_string());
        r
    }
}

fn read_all(p: &Plan, db: &Database) -> Result<Vec<(u64, Vec<u8>)>, String> {
    let t = db.begin_read().map_err(|e| e.to_string())?;
    let mut o = vec![];
    if p.str_keys {
        let tb = match t.open_table(SDEF) {
            Ok(t) => t,
            Err(redb::TableError::TableDoesNotExist(_)) => return Ok(o),
            Err(e) => return Err(e.to_string()),
        };
        for r in tb.iter().map_err(|e| e.to_string())? {
            let (k, v) = r.map_err(|e| e.to_string())?;
            o.push((unkey(p, k.value()), v.value().to_vec()));
        }
    } else {
        let tb = match t.open_table(UDEF) {
            Ok(t) => t,
            Err(redb::TableError::TableDoesNotExist(_)) => return Ok(o),
            Err(e) => return Err(e.to_string()),
        };
        for r in tb.iter().map_err(|e| e.to_string())? {
            let (k, v) = r.map_err(|e| e.to_string())?;
            o.push((k.value(), v.value().to_vec()));
        }
    }
    Ok(o)
}

fn run(p: &Plan) -> (Option<Viol>, Stats) {
    let mut st = Stats { acts: 0, inserts_ok: 0, unordered: 0, removed: 0, sessions: 0, max_height: 0, hash: 0, api: 0 };
    let r = catch_unwind(AssertUnwindSafe(|| run_inner(p, &mut st)));
    match r {
        Ok(v) => (v, st),
        Err(_) => (Some(Viol { prop: "C18".into(), tag: "panic".into(), detail: format!("panic: {}", LAST_PANIC.with(|p| p.borrow().clone())) }), st),
    }
}

thread_local! {
    static LAST_PANIC: std::cell::RefCell<String> = const { std::cell::RefCell::new(String::new()) };
}

fn v(tag: &str, d: String) -> Option<Viol> {
    Some(Viol { prop: "C18".into(), tag: tag.into(), detail: d })
}

fn run_inner(p: &Plan, st: &mut Stats) -> Option<Viol> {
    let mut disk = SimDisk::new(vec![]);
    let mut base: Vec<u8> = vec![];
    let mut db = match builder(p).create_with_backend(disk.clone()) {
        Ok(d) => d,
        Err(e) => return v("create", e.to_string()),
    };
    let mut committed: BTreeMap<u64, Vec<u8>> = BTreeMap::new();
    let mut durable: BTreeMap<u64, Vec<u8>> = BTreeMap::new();
    let mut vgen = 0u64;
    // initial contents
    {
        let txn = db.begin_write().unwrap();
        let r = with_table(p, &txn, |t| {
            for (k, len) in &p.initial {
                vgen += 1;
                let val = val(*k, *len, vgen);
                t.ins(*k, &val)?;
                committed.insert(*k, val);
            }
            Ok(())
        });
        if let Err(e) = r {
            return v("initial", e);
        }
        if let Err(e) = txn.commit() {
            return v("initial", e.to_string());
        }
        durable = committed.clone();
    }
    let mut model = Model { m: committed.clone() };
    let mut txn: Option<redb::WriteTransaction> = None;
    for s in &p.sessions {
        st.sessions += 1;
        if txn.is_none() {
            match db.begin_write() {
                Ok(t) => txn = Some(t),
                Err(e) => return v("begin_write", e.to_string()),
            }
        }
        let mut vgen_model = vgen;
        let exp = model.session(s, &mut vgen_model);
        let got = with_table(p, txn.as_ref().unwrap(), |t| {
            let o = t.session(s, &mut vgen)?;
            // after the cursor is gone the table must equal the sorted map with the same edits
            let d = t.dump()?;
            let n = t.len()?;
            Ok((o, d, n))
        });
        st.api += s.acts.len() as u64 + 3;
        let (got, dump, n) = match got {
            Ok(x) => x,
            Err(e) => return v("session-error", format!("cursor session failed: {e}")),
        };
        vgen = vgen_model;
        st.acts += s.acts.len() as u64;
        for o in &exp {
            match o {
                Obs::Inserted => st.inserts_ok += 1,
                Obs::Unordered => st.unordered += 1,
                _ => {}
            }
        }
        if got != exp {
            let i = got.iter().zip(exp.iter()).position(|(a, b)| a != b).unwrap_or(got.len().min(exp.len()));
            let show = |o: Option<&Obs>| match o {
                Some(Obs::Entry(Some((k, _)))) => format!("entry {k}"),
                Some(Obs::Entry(None)) => "None".into(),
                Some(Obs::Inserted) => "inserted".into(),
                Some(Obs::Unordered) => "UnorderedKey".into(),
                None => "nothing".into(),
            };
            return v("cursor-result", format!("act #{i} ({:?}) of a {} cursor at {:?}/{}: got {}, the sorted-map cursor gives {}", s.acts.get(i), if s.write { "mutable" } else { "read" }, s.bound, if s.upper { "upper" } else { "lower" }, show(got.get(i)), show(exp.get(i))));
        }
        let want: Vec<(u64, Vec<u8>)> = model.m.iter().map(|(k, v)| (*k, v.clone())).collect();
        if dump != want || n != want.len() as u64 {
            return v("table-after-cursor", format!("after the cursor session the table has {} entries (len() {n}), the sorted map {}", dump.len(), want.len()));
        }
        match &s.then {
            Between::Nothing => {}
            Between::Commit { durable: d } => {
                let mut t = txn.take().unwrap();
                if !*d {
                    let _ = t.set_durability(redb::Durability::None);
                }
                if let Err(e) = t.commit() {
                    return v("commit", e.to_string());
                }
                committed = model.m.clone();
                if *d {
                    durable = committed.clone();
                }
            }
            Between::Abort => {
                let t = txn.take().unwrap();
                if let Err(e) = t.abort() {
                    return v("abort", e.to_string());
                }
                model.m = committed.clone();
            }
            Between::Reopen | Between::Crash => {
                // end the transaction first
                let t = txn.take().unwrap();
                if let Err(e) = t.commit() {
                    return v("commit", e.to_string());
                }
                committed = model.m.clone();
                durable = committed.clone();
                let image = if matches!(s.then, Between::Crash) {
                    // power loss right now: everything synced survives (the commit above was durable)
                    let mut d = disk.st();
                    d.dead = true;
                    let log = std::mem::take(&mut d.log);
                    let mut w = CrashWalker::new(base.clone(), &log);
                    w.advance_to(log.len());
                    let (img, _) = w.image(&CrashChoice::NoneKept);
                    drop(d);
                    drop(db);
                    img
                } else {
                    drop(db);
                    disk.st().live.clone()
                };
                base = image.clone();
                disk = SimDisk::new(image);
                db = match builder(p).create_with_backend(disk.clone()) {
                    Ok(d) => d,
                    Err(e) => return v("reopen", e.to_string()),
                };
                match read_all(p, &db) {
                    Ok(d) => {
                        let want: Vec<(u64, Vec<u8>)> = durable.iter().map(|(k, v)| (*k, v.clone())).collect();
                        if d != want {
                            return v("after-reopen", format!("after reopen the table has {} entries, expected {}", d.len(), want.len()));
                        }
                    }
                    Err(e) => return v("after-reopen", e),
                }
                model.m = durable.clone();
            }
        }
    }
    if let Some(t) = txn.take() {
        if let Err(e) = t.commit() {
            return v("commit", e.to_string());
        }
        committed = model.m.clone();
    }
    match read_all(p, &db) {
        Ok(d) => {
            let want: Vec<(u64, Vec<u8>)> = committed.iter().map(|(k, v)| (*k, v.clone())).collect();
            if d != want {
                return v("final", format!("final table has {} entries, expected {}", d.len(), want.len()));
            }
        }
        Err(e) => return v("final", e),
    }
    let mut db = db;
    match db.check_integrity() {
        Ok(true) => {}
        Ok(false) => {
            // known finding F3 (stale header layout after an aborted growing transaction) is C11's
            // business, not this property's: only an error is judged here
        }
        Err(e) => return v("integrity", e.to_string()),
    }
    drop(db);
    st.hash = disk.st().hash.0;
    None
}

fn draw(seed: u64, run: u64) -> Plan {
    let mut r = Rng::new(mix(seed, run));
    let page_size = *r.pick(&[512u32, 512, 1024, 2048, 4096, 16384]);
    let region_pages = *r.pick(&[Some(64u32), Some(128), Some(512), None]);
    let cache = *r.pick(&[0u64, page_size as u64, 65536, 1 << 20, 1 << 30]);
    let space = *r.pick(&[12u64, 40, 200, 3000]);
    let maxv = match region_pages {
        Some(rp) => (rp * page_size / 4).min(40_000),
        None => 40_000,
    };
    let mut vlen = |r: &mut Rng| -> u32 {
        (match r.below(10) {
            0 => 0,
            1..=5 => r.range(1, 60) as u32,
            6..=7 => r.range(60, (page_size / 2) as u64) as u32,
            8 => r.range((page_size / 2) as u64, (2 * page_size) as u64) as u32,
            _ => r.range(page_size as u64, (5 * page_size) as u64) as u32,
        })
        .min(maxv)
    };
    let n_init = *r.pick(&[0u64, 1, 5, 30, 150, 600]);
    let mut initial = vec![];
    let mut seen = BTreeSet::new();
    for _ in 0..n_init {
        let k = r.below(space);
        if seen.insert(k) {
            initial.push((k, vlen(&mut r)));
        }
    }
    let ns = r.range(1, 8);
    let mut sessions = vec![];
    for _ in 0..ns {
        let write = r.chance(4, 5);
        let bound = match r.below(4) {
            0 => Bd::Unb,
            1 | 2 => Bd::Inc(r.below(space)),
            _ => Bd::Exc(r.below(space)),
        };
        // a run of inserts in one direction around a moving base key, as a bulk loader would do
        // inserts run away from the bound in both directions, as a bulk loader's would: ascending
        // keys through insert_before (the gap follows the new entry), descending through insert_after
        let bk = match &bound {
            Bd::Inc(k) | Bd::Exc(k) => *k,
            Bd::Unb => {
                if r.chance(1, 2) {
                    0
                } else {
                    space
                }
            }
        };
        let mut base = bk.saturating_sub(r.range(0, 6));
        let mut base_after = bk + r.range(0, 6);
        let na = r.range(1, 30);
        let mut acts = vec![];
        for _ in 0..na {
            acts.push(match r.below(if write { 20 } else { 8 }) {
                0 | 1 => Act::Next,
                2 | 3 => Act::Prev,
                4 | 5 => Act::PeekNext,
                6 | 7 => Act::PeekPrev,
                8..=12 => {
                    base = base.wrapping_add(r.range(0, 3));
                    Act::InsBefore(if r.chance(1, 6) { r.below(space) } else { base }, vlen(&mut r))
                }
                13..=15 => {
                    base_after = base_after.saturating_sub(r.range(0, 3));
                    Act::InsAfter(if r.chance(1, 6) { r.below(space) } else { base_after }, vlen(&mut r))
                }
                16 | 17 => Act::RemNext,
                _ => Act::RemPrev,
            });
        }
        let then = match r.below(12) {
            0..=4 => Between::Nothing,
            5..=7 => Between::Commit { durable: r.chance(2, 3) },
            8 => Between::Abort,
            9 | 10 => Between::Reopen,
            _ => Between::Crash,
        };
        sessions.push(Session { write, upper: r.chance(1, 2), bound, acts, close: r.chance(3, 4), then });
    }
    let prefix = match r.below(3) {
        0 => String::new(),
        1 => "shared/prefix/".to_string(),
        _ => "p".repeat(r.range(1, 50) as usize),
    };
    let str_keys = r.chance(1, 2);
    let insert_flush = *r.pick(&[0u32, 0, 1, 64, 300, 2000, 20000]);
    let freed_chunk = *r.pick(&[0u32, 0, 0, 2, 5]);
    Plan { page_size, region_pages, cache, str_keys, prefix, initial, sessions, insert_flush, freed_chunk }
}

#[derive(Serialize, Deserialize)]
struct Replay {
    property: String,
    engine: String,
    seed: u64,
    run: u64,
    plan: Plan,
    expect: Viol,
}

fn same(a: &Viol, b: &Viol) -> bool {
    a.prop == b.prop && a.tag == b.tag
}

fn minimise(rep: &Replay, secs: u64) -> Replay {
    let start = Instant::now();
    let mut best = Replay { property: rep.property.clone(), engine: rep.engine.clone(), seed: rep.seed, run: rep.run, plan: rep.plan.clone(), expect: rep.expect.clone() };
    let mut progress = std::env::var_os("VERIF_NO_MIN").is_none();
    while progress && start.elapsed().as_secs() < secs {
        progress = false;
        let mut cands = vec![];
        for i in (0..best.plan.sessions.len()).rev() {
            let mut p = best.plan.clone();
            p.sessions.remove(i);
            cands.push(p);
        }
        for i in 0..best.plan.sessions.len() {
            for j in (0..best.plan.sessions[i].acts.len()).rev() {
                let mut p = best.plan.clone();
                p.sessions[i].acts.remove(j);
                cands.push(p);
            }
        }
        for i in (0..best.plan.initial.len()).rev() {
            let mut p = best.plan.clone();
            p.initial.remove(i);
            cands.push(p);
        }
        for c in cands {
            if start.elapsed().as_secs() >= secs {
                break;
            }
            if let (Some(v), _) = run(&c)
                && same(&v, &rep.expect)
            {
                best.plan = c;
                best.expect = v;
                progress = true;
                break;
            }
        }
    }
    best
}

fn main() {
    std::panic::set_hook(Box::new(|i| {
        let m: String = i.to_string().chars().take(400).collect();
        LAST_PANIC.with(|p| *p.borrow_mut() = m);
    }));
    let args: Vec<String> = std::env::args().skip(1).collect();
    // keep ~1 MiB image buffers on the heap (see sim/src/runner.rs)
    if std::env::var_os("MALLOC_MMAP_THRESHOLD_").is_none() {
        use std::os::unix::process::CommandExt;
        let err = std::process::Command::new(std::env::current_exe().unwrap())
            .args(&args)
            .env("MALLOC_MMAP_THRESHOLD_", "33554432")
            .env("MALLOC_TRIM_THRESHOLD_", "268435456")
            .env("MALLOC_TOP_PAD_", "67108864")
            .exec();
        eprintln!("re-exec failed: {err}");
        std::process::exit(2);
    }
    let get = |k: &str| args.iter().position(|a| a == k).and_then(|i| args.get(i + 1)).cloned();
    let seed = std::env::var("VERIF_SEED").ok().and_then(|s| s.parse().ok()).unwrap_or(20260922u64);
    match args.first().map(|s| s.as_str()) {
        Some("replay") => {
            let path = args.get(1).cloned().unwrap_or_default();
            let rep: Replay = match std::fs::read_to_string(&path).ok().and_then(|t| serde_json::from_str(&t).ok()) {
                Some(r) => r,
                None => {
                    eprintln!("cannot read replay {path}");
                    std::process::exit(2)
                }
            };
            match run(&rep.plan).0 {
                Some(v) => {
                    println!("replayed: property={} tag={} detail={}", v.prop, v.tag, v.detail);
                    println!("VIOLATION property={} replay={}", v.prop, path);
                    std::process::exit(1)
                }
                None => {
                    println!("replay of {path}: no violation");
                    std::process::exit(0)
                }
            }
        }
        Some("mkreplay") => {
            let run_i: u64 = get("--run").and_then(|s| s.parse().ok()).unwrap_or(0);
            let out = get("--out").unwrap_or("/tmp/replay.json".into());
            let rep = Replay { property: "C18".into(), engine: "cursor".into(), seed, run: run_i, plan: draw(seed, run_i), expect: Viol { prop: "C18".into(), tag: "process-abort".into(), detail: get("--detail").unwrap_or_default() } };
            std::fs::write(out, serde_json::to_string_pretty(&rep).unwrap()).unwrap();
            std::process::exit(0)
        }
        Some("explore") => {}
        _ => {
            eprintln!("usage: cursor explore [--runs N] [--max-secs S] [--threads T] [--tier t] [--status-dir D] [--only i] | cursor replay <file>");
            std::process::exit(2)
        }
    }
    let runs: u64 = get("--runs").and_then(|s| s.parse().ok()).unwrap_or(20000);
    let max_secs: u64 = get("--max-secs").and_then(|s| s.parse().ok()).unwrap_or(120);
    let threads: usize = get("--threads").and_then(|s| s.parse().ok()).unwrap_or(16);
    let tier = get("--tier").unwrap_or("quick".into());
    let status_dir = get("--status-dir");
    let only: Option<u64> = get("--only").and_then(|s| s.parse().ok());
    let start = Instant::now();
    let next = AtomicU64::new(only.unwrap_or(0));
    let last = only.map_or(runs, |x| x + 1);
    let stop = AtomicBool::new(false);
    let found = Mutex::new(Vec::<(u64, Viol)>::new());
    let hashes = Mutex::new(BTreeSet::<u64>::new());
    let agg = Mutex::new((0u64, 0u64, 0u64, 0u64, 0u64, 0u64, 0u64));
    let samples = Mutex::new(vec![]);
    if let Some(d) = &status_dir {
        let _ = std::fs::create_dir_all(d);
    }
    let tid = AtomicU64::new(0);
    std::thread::scope(|s| {
        for _ in 0..(if only.is_some() { 1 } else { threads }) {
            s.spawn(|| {
                let my = tid.fetch_add(1, Ordering::Relaxed);
                let status = status_dir.as_ref().and_then(|d| std::fs::File::create(format!("{d}/t{my}")).ok());
                loop {
                    if stop.load(Ordering::Relaxed) || start.elapsed().as_secs() >= max_secs {
                        break;
                    }
                    let i = next.fetch_add(1, Ordering::Relaxed);
                    if i >= last {
                        break;
                    }
                    if let Some(f) = &status {
                        use std::os::unix::fs::FileExt;
                        let _ = f.write_all_at(format!("{i:<20}").as_bytes(), 0);
                    }
                    let plan = draw(seed, i);
                    let (viol, st) = run(&plan);
                    {
                        let mut a = agg.lock().unwrap();
                        a.0 += 1;
                        a.1 += st.acts;
                        a.2 += st.inserts_ok;
                        a.3 += st.unordered;
                        a.4 += st.sessions;
                        a.5 += st.api;
                        if st.acts > 0 {
                            a.6 += 1;
                        }
                    }
                    if st.acts > 0 {
                        hashes.lock().unwrap().insert(st.hash ^ crate::rng::fnv(serde_json::to_string(&plan.sessions).unwrap().as_bytes()));
                    }
                    if i < 2 {
                        let mut p = plan.clone();
                        p.initial.truncate(5);
                        p.sessions.truncate(2);
                        samples.lock().unwrap().push(json!({"run": i, "plan_head": p}));
                    }
                    if let Some(v) = viol {
                        found.lock().unwrap().push((i, v));
                        stop.store(true, Ordering::Relaxed);
                    }
                }
                if let Some(f) = &status {
                    use std::os::unix::fs::FileExt;
                    let _ = f.write_all_at(format!("{:<20}", "done").as_bytes(), 0);
                }
            });
        }
    });
    let a = agg.into_inner().unwrap();
    let distinct = hashes.into_inner().unwrap().len() as u64;
    let mut found = found.into_inner().unwrap();
    found.sort_by_key(|f| f.0);
    let mut code = 0;
    if let Some((i, v)) = found.first().cloned() {
        let rep = Replay { property: v.prop.clone(), engine: "cursor".into(), seed, run: i, plan: draw(seed, i), expect: v };
        let min = minimise(&rep, if tier == "thorough" { 300 } else { 45 });
        let dir = std::env::var("VERIF_REPLAY_DIR").unwrap_or("/verif/replays".into());
        let _ = std::fs::create_dir_all(&dir);
        let h = crate::rng::fnv(serde_json::to_string(&min.plan).unwrap().as_bytes());
        let path = format!("{dir}/C18-{seed}-{:08x}.json", h as u32);
        std::fs::write(&path, serde_json::to_string_pretty(&min).unwrap()).unwrap();
        let ok = run(&min.plan).0.is_some_and(|v2| same(&v2, &min.expect));
        println!("violation: run={i} property={} tag={} detail={}", min.expect.prop, min.expect.tag, min.expect.detail);
        if ok {
            println!("VIOLATION property={} replay={}", min.expect.prop, path);
            code = 1;
        } else {
            println!("HARNESS-ERROR: minimised replay did not reproduce ({path})");
            code = 2;
        }
    }
    let wall = start.elapsed().as_secs_f64();
    let ev = json!({
        "property_id": "C18", "tier": tier, "seed": seed, "level": "exploration", "wall_s": wall, "violations": if code == 1 { 1 } else { 0 },
        "coverage": {
            "evaluations": a.0,
            "distinct_nontrivial": distinct,
            "rule": "one evaluation = one simulated run: a plan (page/region/cache size, key type, initial contents, 1-8 cursor sessions with commits, aborts, reopen and dirty restart in between) drawn from hash(seed, run index), executed against real redb (experimental_cursor feature build) on SimDisk and against a sorted-map gap cursor; non-trivial = at least one cursor act; distinct = distinct (backend op-log hash, session list) pairs",
            "samples": samples.into_inner().unwrap(),
            "runs_per_hour": if wall > 0.0 { (a.0 as f64 / wall * 3600.0) as u64 } else { 0 },
            "simulated_time_steps": {"api_calls": a.5},
            "cursor_acts": a.1, "inserts_accepted": a.2, "inserts_rejected_unordered": a.3, "cursor_sessions": a.4,
            "components": {"real": ["redb built with --features experimental_cursor from /repo"], "stub": ["StorageBackend -> SimDisk"], "harness": ["sorted-map gap cursor model", "plan generator"]}
        },
        "assumptions": ["fault-free conformance tier: no schedule or storage fault is involved in this property; the simulator contributes determinism, replay, configuration swarm and reopen / dirty-restart steps", "decided on the experimental_cursor feature build"]
    });
    let evdir = std::env::var("VERIF_EVIDENCE_DIR").unwrap_or("/verif/evidence".into());
    let _ = std::fs::create_dir_all(&evdir);
    std::fs::write(format!("{evdir}/C18.json"), serde_json::to_string_pretty(&ev).unwrap()).unwrap();
    println!("C18: runs={} acts={} inserts={} unordered={} distinct={distinct} wall={wall:.1}s exit={code}", a.0, a.1, a.2, a.3);
    std::process::exit(code)
}
